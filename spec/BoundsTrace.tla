---------------------------- MODULE BoundsTrace ----------------------------
(***************************************************************************)
(* Trace validation of operation sequences on real bound objects against   *)
(* Bounds.tla.  The replayer walks the operation TREE (all sequences over  *)
(* the alphabet up to a depth) depth-first with a deep copy at every node, *)
(* so the log alternates  Restore(node state) , Operation : every edge of  *)
(* the tree is executed and validated exactly once.                        *)
(* Record: [event, state, obs] with obs = observations made with the real  *)
(* contains()/sample()/write()/read() of the object after the event.       *)
(***************************************************************************)
EXTENDS Bounds, Json, IOUtils

Log == JsonDeserialize(IOEnv.TRACE_FILE)
VARIABLE l
S2S(s) == {s[i] : i \in DOMAIN s}
J(i) == Log[i].state
RecsOf(r) == [k \in 1..Len(r) |-> [pts |-> S2S(r[k].pts), vol |-> r[k].vol, block |-> r[k].block]]
AllPtsDef == 1..Log[1].npts

Bind(i) == /\ recs' = RecsOf(J(i).recs) /\ lens' = J(i).lens /\ trimmed' = S2S(J(i).trimmed)
           /\ cache' = J(i).cache /\ nsamp' = J(i).nsamp /\ nrej' = J(i).nrej
TInit == /\ l = 1 /\ recs = RecsOf(J(1).recs) /\ lens = J(1).lens /\ trimmed = S2S(J(1).trimmed)
         /\ cache = J(1).cache /\ nsamp = J(1).nsamp /\ nrej = J(1).nrej

F(name, ok) == IF ok THEN {} ELSE {name}
ActionFails(e) ==
  CASE e.name = "Restore" -> {}
    [] e.name = "Split" /\ e.ret ->
         (IF ~SplitOK_Shape THEN {"SplitOK_Shape"} ELSE {c \in SplitOK_Clauses : ~SplitOK_Holds(c)})
         \cup F("SplitOK_ShrinksExact", e.shrinkOK)        \* the same comparison made in log space by the observer
    [] e.name = "Split" /\ ~e.ret ->
         F("SplitRefused_Frame", SplitRefused_Frame) \cup F("SplitRefused_AllBlocked", SplitRefused_AllBlocked(e.allow))
    [] e.name = "Trim" /\ e.ret ->
         IF ~TrimOK_Shape THEN {"TrimOK_Shape"} ELSE
           F("TrimOK_Flags", TrimOK_Flags) \cup F("TrimOK_Trimmed", TrimOK_Trimmed)
           \cup F("TrimOK_LowestDensity", TrimOK_LowestDensity) \cup F("TrimOK_Reset", TrimOK_Reset)
           \cup F("TrimOK_Lens", TrimOK_Lens)
    [] e.name = "Trim" /\ ~e.ret -> F("TrimRefused_Frame", TrimRefused_Frame)
    [] e.name = "Sample" ->
         F("Sample_Frame", Sample_Frame) \cup F("Sample_Counters", Sample_Counters(e.n))
         \cup F("Sample_Count", e.got = e.n) \cup F("SampleInside", e.inside)
    [] e.name = "LogV" -> F("LogV_Frame", Sample_Frame) \cup F("LogV_Counters", LogV_Counters)
    [] e.name = "RoundTrip" ->
         F("RT_Raise", e.raised = "") \cup F("RT_Contains", e.containsSame) \cup F("RT_Volume", e.volSame)
         \cup F("RT_Stream", e.streamSame) \cup F("RT_UpdContains", e.updContainsSame)
         \cup F("RT_UpdVolume", e.updVolSame) \cup F("RT_UpdStream", e.updStreamSame)
         \cup F("RT_Frame", UNCHANGED vars)
    \* bounds other than a bare union (cube, ellipsoid, mixture, neural, nautilus): observations only
    [] e.name = "Compute" -> F("Enclosed", Log[l + 1].obs.enclosed) \cup F("InsideOuter", e.insideOuter)
    [] e.name = "SampleObj" ->
         F("Sample_Count", e.got = e.n) \cup F("SampleInside", e.inside) \cup F("SampleInCube", e.inCube)
         \cup F("InsideOuter", e.insideOuter) \cup F("SampleObj_Frame", recs' = recs /\ trimmed' = trimmed)
         \cup F("NB_Counters", nsamp' >= nsamp /\ nrej' >= nrej /\ nrej' - nrej <= nsamp' - nsamp /\ cache' >= 0)
    [] e.name = "Raise" -> {"NoRaise"}
    [] OTHER -> {"NoSuchAction"}

InvNames == {"RecordsAligned", "Partition", "NonEmpty", "CountersSane", "BlockSound", "Enclosed", "VolumeRecords"}
InvHolds(n) ==
  CASE n = "RecordsAligned" -> RecordsAligned
    \* (the log may hold several unions, each with its own construction points 1..npts)
    [] n = "Partition" -> /\ \A i, j \in DOMAIN recs : i # j => recs[i].pts \cap recs[j].pts = {}
                          /\ Pts(recs) \cup trimmed = 1..Log[l].npts /\ Pts(recs) \cap trimmed = {}
    [] n = "NonEmpty" -> NonEmpty
    [] n = "CountersSane" -> CountersSane
    [] n = "BlockSound" -> BlockSound
    [] n = "Enclosed" -> Log[l].obs.enclosed       \* every untrimmed construction point satisfies contains()
    [] n = "VolumeRecords" -> Log[l].obs.volsAligned  \* log_v_all[k] is the volume of bounds[k]

TNext == /\ l < Len(Log) /\ l' = l + 1 /\ Bind(l + 1)
         /\ LET f == ActionFails(Log[l + 1].event) \cup {n \in InvNames : ~(InvHolds(n))'}
            IN f = {} \/ PrintT(<<"@@F", l + 1, f, Log[l + 1].node>>)
TSpec == TInit /\ [][TNext]_<<vars, l>>
InitOK == (l = 1) => LET f == {n \in InvNames : ~InvHolds(n)} IN f = {} \/ PrintT(<<"@@F", 1, f, Log[1].node>>)
Done == /\ PrintT(<<"@@DONE", TLCGet("stats").diameter, Len(Log)>>)
        /\ TLCGet("stats").diameter = Len(Log)
=============================================================================
