---------------------------- MODULE CheckpointIO ----------------------------
(***************************************************************************)
(* C06, code -> spec: the system calls a real checkpointed run issues on   *)
(* the checkpoint file ("main") and its temporary ("tmp"), recorded with   *)
(* strace, validated against the file-level actions of the TmpRename       *)
(* protocol of Checkpoint.tla.                                             *)
(*                                                                         *)
(* The only way the content of main may change is an atomic rename of a    *)
(* complete, closed temporary file.  There is no action for opening main   *)
(* for writing, writing/truncating through a descriptor of main, unlinking *)
(* main, or renaming anything else over it: such an event is unexplained.  *)
(* Because every syscall is a possible kill point, "main is a complete     *)
(* snapshot between any two logged events" is Atomic of Checkpoint.tla.    *)
(***************************************************************************)
EXTENDS Naturals, Sequences, FiniteSets, TLC, Json, IOUtils

Log == JsonDeserialize(IOEnv.TRACE_FILE)
VARIABLES l, mainExists, tmpExists, tmpW, mainW, renames
vars == <<l, mainExists, tmpExists, tmpW, mainW, renames>>

Init == l = 0 /\ mainExists = FALSE /\ tmpExists = FALSE /\ tmpW = {} /\ mainW = {} /\ renames = 0

\* what the event does to the abstract file state (total: unexplained events still advance the state)
Effect(e) ==
  CASE e.ev = "open" /\ e.file = "tmp" /\ e.mode = "create" ->
         /\ tmpExists' = TRUE /\ tmpW' = tmpW \cup {e.fd} /\ UNCHANGED <<mainExists, mainW, renames>>
    [] e.ev = "open" /\ e.file = "tmp" /\ e.mode = "rw" ->
         /\ tmpW' = tmpW \cup {e.fd} /\ UNCHANGED <<mainExists, tmpExists, mainW, renames>>
    [] e.ev = "open" /\ e.file = "main" /\ e.mode # "ro" ->
         /\ mainW' = mainW \cup {e.fd} /\ mainExists' = TRUE /\ UNCHANGED <<tmpExists, tmpW, renames>>
    [] e.ev = "close" ->
         /\ tmpW' = tmpW \ {e.fd} /\ mainW' = mainW \ {e.fd} /\ UNCHANGED <<mainExists, tmpExists, renames>>
    [] e.ev = "rename" /\ e.src = "tmp" /\ e.dst = "main" ->
         /\ mainExists' = TRUE /\ tmpExists' = FALSE /\ renames' = renames + 1 /\ UNCHANGED <<tmpW, mainW>>
    [] e.ev = "unlink" /\ e.file = "main" ->
         /\ mainExists' = FALSE /\ UNCHANGED <<tmpExists, tmpW, mainW, renames>>
    [] e.ev = "unlink" /\ e.file = "tmp" ->
         /\ tmpExists' = FALSE /\ UNCHANGED <<mainExists, tmpW, mainW, renames>>
    [] OTHER -> UNCHANGED <<mainExists, tmpExists, tmpW, mainW, renames>>

\* named reasons why an event is not an instance of a protocol action
Fails(e) ==
     (IF e.ev = "open" /\ e.file = "main" /\ e.mode # "ro" THEN {"IO_MainOpenedForWriting"} ELSE {})
  \cup (IF e.ev = "write" /\ e.file = "main" THEN {"IO_MainWrittenInPlace"} ELSE {})
  \cup (IF e.ev = "unlink" /\ e.file = "main" THEN {"IO_MainUnlinked"} ELSE {})
  \cup (IF e.ev = "rename" /\ ~(e.src = "tmp" /\ e.dst = "main") THEN {"IO_RenameOther"} ELSE {})
  \cup (IF e.ev = "rename" /\ e.src = "tmp" /\ e.dst = "main" /\ (tmpW # {} \/ ~tmpExists)
        THEN {"IO_RenameOfOpenTmp"} ELSE {})
  \cup (IF e.ev = "write" /\ e.file = "tmp" /\ e.fd \notin tmpW THEN {"IO_WriteUnknownFd"} ELSE {})

Next == /\ l < Len(Log) /\ l' = l + 1
        /\ Effect(Log[l + 1])
        /\ LET f == Fails(Log[l + 1]) IN f = {} \/ PrintT(<<"@@F", l + 1, f, Log[l + 1].n>>)
Spec == Init /\ [][Next]_vars
\* a checkpoint, once it exists, never disappears
MainStays == [][mainExists => mainExists']_vars
Done == /\ PrintT(<<"@@DONE", TLCGet("stats").diameter - 1, Len(Log)>>)
        /\ TLCGet("stats").diameter - 1 = Len(Log)
=============================================================================
