----------------------------- MODULE PhaseMini -----------------------------
(* Minifloat model of PhaseShift.transform: P-bit mantissa, round to nearest  *)
(* even, values in units of 2^-Q.  Decides the boundary clause of C16.        *)
EXTENDS Integers, FiniteSets
CONSTANTS P, Q, Repaired
One == 2 ^ Q
RECURSIVE Pow2Le(_, _)
Pow2Le(a, b) == IF 2 * b <= a THEN Pow2Le(a, 2 * b) ELSE b      \* largest power of two <= a (a >= 1)
Spacing(a) == LET b == Pow2Le(a, 1)  s == b \div (2 ^ (P - 1)) IN IF s < 1 THEN 1 ELSE s
Representable(v) == v = 0 \/ (v > 0 /\ v % Spacing(v) = 0)
F == {v \in 0..One : Representable(v)}
Abs(x) == IF x < 0 THEN -x ELSE x
Rnd(x) == IF x = 0 THEN 0 ELSE
          LET a == Abs(x)  sp == Spacing(a)  lo == a - (a % sp)  hi == lo + sp
              r == IF a - lo < hi - a THEN lo ELSE IF a - lo > hi - a THEN hi
                   ELSE IF (lo \div sp) % 2 = 0 THEN lo ELSE hi
          IN IF x < 0 THEN -r ELSE r
\* numpy's float remainder: exact fmod, then +1 (rounded) if negative
Mod1(t) == IF t >= 0 THEN t % One ELSE LET f == -((-t) % One) IN IF f = 0 THEN 0 ELSE Rnd(f + One)
Wrap(r) == IF Repaired /\ r >= One THEN 0 ELSE r
Shift(c) == Rnd(One \div 2 - c)                 \* (-center + 0.5)
Fwd(x, c) == Wrap(Mod1(Rnd(x + Shift(c))))
Inv(y, c) == Wrap(Mod1(Rnd(y - Shift(c))))
VARIABLES x, c
Init == x \in {v \in F : v < One} /\ c \in {v \in F : v < One}
Next == UNCHANGED <<x, c>>
Spec == Init /\ [][Next]_<<x, c>>
InRange == Fwd(x, c) >= 0 /\ Fwd(x, c) < One /\ Inv(x, c) >= 0 /\ Inv(x, c) < One
\* undone up to rounding, modulo one: circular distance of Inv(Fwd(x)) to x is at most 2 spacings at 1/2..1
CircDist(a, b) == LET d == Abs(a - b) % One IN IF d > One - d THEN One - d ELSE d
RoundTrip == (Fwd(x, c) < One) => CircDist(Inv(Fwd(x, c), c) % One, x) <= 2 * Spacing(One - 1)
=============================================================================
