------------------------------- MODULE Equiv -------------------------------
(***************************************************************************)
(* C11, code -> spec.  Sampler.tla has no action whose effect depends on   *)
(* how the likelihood is evaluated (scalar / vectorised, pool size,        *)
(* completion order), on verbosity, on whether a checkpoint is written, or *)
(* on read-only accessors being called: two executions that differ only in *)
(* those respects are the SAME behaviour.  The log pairs the essential     *)
(* state (digest ids) of a reference run and a variant run at every batch  *)
(* boundary.                                                               *)
(***************************************************************************)
EXTENDS Naturals, Sequences, TLC, Json, IOUtils
Log == JsonDeserialize(IOEnv.TRACE_FILE)
VARIABLE l
F(name, ok) == IF ok THEN {} ELSE {name}
Fails(r) == F("EQ_SameLength", r.lenA = r.lenB)
       \cup F("EQ_Boundary", r.a = r.b)                 \* same essential state at boundary k
       \cup F("EQ_NLike", r.nlikeA = r.nlikeB)
TInit == l = 0
TNext == /\ l < Len(Log) /\ l' = l + 1
         /\ LET f == Fails(Log[l + 1]) IN f = {} \/ PrintT(<<"@@F", l + 1, f, Log[l + 1].pair, Log[l + 1].k>>)
TSpec == TInit /\ [][TNext]_l
Done == /\ PrintT(<<"@@DONE", TLCGet("stats").diameter - 1, Len(Log)>>)
        /\ TLCGet("stats").diameter - 1 = Len(Log)
=============================================================================
