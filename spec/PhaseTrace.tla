----------------------------- MODULE PhaseTrace -----------------------------
(***************************************************************************)
(* C16, spec -> code -> spec.  For point sets on the dyadic grid the real  *)
(* PhaseShift.compute / transform are executed; centres and the complete   *)
(* forward / inverse tables (all half-grid inputs) are logged as integers  *)
(* and must EQUAL the model.  Records of kind "float" carry observations   *)
(* on float64 inputs adjacent to the wrap position and to 0 and 1.         *)
(***************************************************************************)
EXTENDS PhaseShift, Json, IOUtils, TLC

Log == JsonDeserialize(IOEnv.TRACE_FILE)
VARIABLE l
S2S(s) == {s[i] : i \in DOMAIN s}
F(name, ok) == IF ok THEN {} ELSE {name}
GridFails(r) ==
  LET S == S2S(r.pts)  c == r.center IN
     F("PS_CenterOppositeLargestGap", c \in CenterSet(S))
  \cup F("PS_Forward", Len(r.fwd) = M /\ \A k \in 1..M : r.fwd[k] = Fwd(k - 1, c))
  \cup F("PS_Inverse", Len(r.inv) = M /\ \A k \in 1..M : r.inv[k] = Inv(k - 1, c))
  \cup F("PS_InRange", \A k \in DOMAIN r.fwd : r.fwd[k] \in 0..(M - 1) /\ r.inv[k] \in 0..(M - 1))
  \cup F("PS_Untouched", r.untouched)
  \cup F("PS_Exact", r.exact)
FloatFails(r) ==
     F("PS_FloatInRange", r.inRange) \cup F("PS_FloatRoundTrip", r.roundTrip) \cup F("PS_Untouched", r.untouched)
Fails(r) == IF r.kind = "grid" THEN GridFails(r) ELSE FloatFails(r)
TInit == l = 0 /\ P = {0} /\ x = 0
TNext == /\ l < Len(Log) /\ l' = l + 1 /\ UNCHANGED vars
         /\ LET f == Fails(Log[l + 1]) IN f = {} \/ PrintT(<<"@@F", l + 1, f>>)
TSpec == TInit /\ [][TNext]_<<vars, l>>
Done == /\ PrintT(<<"@@DONE", TLCGet("stats").diameter - 1, Len(Log)>>)
        /\ TLCGet("stats").diameter - 1 = Len(Log)
=============================================================================
