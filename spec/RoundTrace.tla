----------------------------- MODULE RoundTrace -----------------------------
(***************************************************************************)
(* C08, code -> spec: every iteration of the sampling loops of             *)
(* Union.sample and NautilusBound.sample on real bounds, reconstructed     *)
(* with a recording generator and recording member bounds, validated       *)
(* against the sampling rule whose uniformity / calibration               *)
(* UnionSampling.tla establishes on the cell model.                        *)
(* kind "union": p (x1e6) multinomial probabilities, vrel (x1e6) member    *)
(*   volumes relative to their sum, counts per member, for every proposal  *)
(*   that survived the cube filter its multiplicity m, draw u (x1e6) and   *)
(*   whether it was accepted, and the counter deltas.                      *)
(* kind "nautilus": proposals of the outer union filtered by the networks. *)
(* kind "merge": pool path, parent counters vs sum of the workers'.        *)
(* kind "volume": closed-form ellipsoid volume vs the matrix of contains().*)
(* kind "alloc": per-member proposal counts of successive refills.         *)
(***************************************************************************)
EXTENDS UnionSampling, Sequences, Json, IOUtils, TLC

Log == JsonDeserialize(IOEnv.TRACE_FILE)
VARIABLE l
U6 == 1000000
F(name, ok) == IF ok THEN {} ELSE {name}
AbsI(a) == IF a < 0 THEN -a ELSE a
SumS(s) == LET RECURSIVE sm(_) sm(k) == IF k = 0 THEN 0 ELSE s[k] + sm(k - 1) IN sm(Len(s))
CountTrue(s) == Cardinality({k \in DOMAIN s : s[k]})
UnionFails(r) ==
     F("RD_VolumeProportional", Len(r.p) = Len(r.vrel) /\ \A k \in DOMAIN r.p : AbsI(r.p[k] - r.vrel[k]) <= 2)
  \cup F("RD_ProposalCount", SumS(r.counts) = r.nprop /\ r.nprop = 1000)
  \cup F("RD_MemberCounts", r.memberOK)
  \cup F("RD_CubeFilter", r.cubeOK)
  \cup F("RD_Multiplicity", \A k \in DOMAIN r.m : r.m[k] >= 1)
  \cup F("RD_AcceptRule", \A k \in DOMAIN r.m : r.acc[k] \in AcceptAllowed(r.m[k], r.u[k], U6))
  \cup F("RD_Counters", r.dnsamp = r.nprop /\ r.dnrej = r.nprop - CountTrue(r.acc) /\ r.dcache = CountTrue(r.acc))
  \cup F("RD_CacheOrder", r.cacheOK)
  \cup F("RD_LogV", AbsI(r.logvResid) <= 1000)
NautilusFails(r) ==
     F("NB_Filter", r.filterOK)
  \cup F("NB_Counters", r.dnsamp = r.nprop /\ r.dnrej = r.nprop - r.nacc /\ r.dcache = r.nacc)
  \cup F("NB_LogV", AbsI(r.logvResid) <= 1000)
MergeFails(r) ==
     F("MG_Own", r.dnsamp = r.wnsamp /\ r.dnrej = r.wnrej)
  \cup F("MG_Outer", r.donsamp = r.wonsamp /\ r.donrej = r.wonrej)
  \cup F("MG_Cache", r.dcache = r.wcache)
\* kind "alloc": the numbers of proposals the members of one union were asked for in successive refills (vrelm =
\* member volumes relative to their sum, x1000).  The rule UnionSampling.tla proves uniform draws the member of every
\* proposal at random with probability proportional to volume: when some member has 1000 p (1 - p) >= 25, eight
\* refills with one and the same allocation mean that the allocation is a function of the volumes (every refill then
\* carries the same rounding error, so the members' expected shares differ from their volumes).
AllocFails(r) ==
     F("RD_AllocationRandom", (Len(r.counts) >= 8 /\ \E k \in DOMAIN r.vrelm : r.vrelm[k] * (1000 - r.vrelm[k]) >= 25000)
                                  => Cardinality({r.counts[j] : j \in DOMAIN r.counts}) >= 2)
  \cup F("RD_AllocationTotal", \A j \in DOMAIN r.counts : SumS(r.counts[j]) = 1000)
VolumeFails(r) == F("EV_ClosedForm", AbsI(r.resid) <= 1000) \cup F("EV_MatrixOfContains", AbsI(r.residA) <= 1000)
Fails(r) == CASE r.kind = "union" -> UnionFails(r) [] r.kind = "nautilus" -> NautilusFails(r)
              [] r.kind = "merge" -> MergeFails(r) [] r.kind = "volume" -> VolumeFails(r)
              [] r.kind = "alloc" -> AllocFails(r) [] OTHER -> {"NoSuchRecord"}
TInit == l = 0 /\ m = [c \in Cells |-> 1] /\ cover = [e \in Ells |-> Cells] /\ cube = Cells
TNext == /\ l < Len(Log) /\ l' = l + 1 /\ UNCHANGED vars
         /\ LET f == Fails(Log[l + 1]) IN f = {} \/ PrintT(<<"@@F", l + 1, f>>)
TSpec == TInit /\ [][TNext]_<<vars, l>>
Done == /\ PrintT(<<"@@DONE", TLCGet("stats").diameter - 1, Len(Log)>>)
        /\ TLCGet("stats").diameter - 1 = Len(Log)
=============================================================================
