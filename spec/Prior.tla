------------------------------- MODULE Prior -------------------------------
(***************************************************************************)
(* nautilus.Prior (nautilus/prior.py): a prior is a sequence of parameter  *)
(* declarations.  decl[i] = [key, kind, target, tag]:                      *)
(*    kind "free"  : tag identifies the distribution (its inverse CDF is   *)
(*                   applied to the parameter's own unit coordinate)       *)
(*    kind "fixed" : tag is the constant                                   *)
(*    kind "link"  : target is the key of the ULTIMATE target (chains are  *)
(*                   resolved when the link is declared)                   *)
(* Add(key, dist) either appends one declaration (AddOK) or is rejected    *)
(* with an exception from the admissible set and leaves decl unchanged.    *)
(***************************************************************************)
EXTENDS Naturals, Sequences, FiniteSets, TLC

CONSTANTS Keys,       \* explicit keys offered by the environment (strings)
          MaxLen      \* model checking: maximal number of accepted declarations

VARIABLE decl
vars == <<decl>>

\* ----- the declaration alphabet -----
\* key argument:  [k |-> "none"] (automatic key), [k |-> "str", s |-> name], [k |-> "nonstr"] (e.g. 1.0)
\* dist argument: [d |-> "range", tag], [d |-> "dist", tag], [d |-> "number", tag], [d |-> "link", to], [d |-> "bad"]
AutoKey(n) == "x_" \o ToString(n)
KeyArgs == {[k |-> "none"], [k |-> "nonstr"]} \cup {[k |-> "str", s |-> s] : s \in Keys}
DistArgs(n) == {[d |-> "range", tag |-> n], [d |-> "dist", tag |-> n], [d |-> "number", tag |-> n], [d |-> "bad"]}
               \cup {[d |-> "link", to |-> s] : s \in Keys}

DeclKeys == {decl[i].key : i \in DOMAIN decl}
EffKey(ka) == IF ka.k = "none" THEN AutoKey(Len(decl)) ELSE IF ka.k = "str" THEN ka.s ELSE "?"
IndexOf(key) == CHOOSE i \in DOMAIN decl : decl[i].key = key

\* reasons why a declaration is malformed, each with the exception class it warrants.  A declaration
\* malformed in two ways may raise either: the property does not order the tests.
Reasons(ka, da) ==
     (IF ka.k = "nonstr" THEN {"TypeError"} ELSE {})
  \cup (IF ka.k # "nonstr" /\ EffKey(ka) \in DeclKeys THEN {"ValueError"} ELSE {})     \* duplicate / colliding key
  \cup (IF da.d = "bad" THEN {"TypeError"} ELSE {})
  \cup (IF da.d = "link" /\ (da.to \notin DeclKeys \/ (ka.k # "nonstr" /\ da.to = EffKey(ka)))
        THEN {"ValueError"} ELSE {})                                                    \* undeclared target / self link
WellFormedArgs(ka, da) == Reasons(ka, da) = {}

NewDecl(ka, da) ==
  CASE da.d \in {"range", "dist"} -> [key |-> EffKey(ka), kind |-> "free", target |-> "", tag |-> da.tag]
    [] da.d = "number" -> [key |-> EffKey(ka), kind |-> "fixed", target |-> "", tag |-> da.tag]
    [] da.d = "link" ->
         LET t == decl[IndexOf(da.to)] IN
         [key |-> EffKey(ka), kind |-> "link", target |-> (IF t.kind = "link" THEN t.target ELSE t.key),
          tag |-> 0]

AddOK(ka, da) == WellFormedArgs(ka, da) /\ decl' = Append(decl, NewDecl(ka, da))
AddRejected(ka, da, exc) == exc \in Reasons(ka, da) /\ UNCHANGED decl

(* ---------------- what the prior means ---------------- *)
FreeIdx == {i \in DOMAIN decl : decl[i].kind = "free"}
Dim == Cardinality(FreeIdx)
\* position of free parameter i among the free parameters (its unit-cube coordinate), 1-based
Coord(i) == Cardinality({j \in FreeIdx : j <= i})
\* unit_to_physical: output column c is distribution tag of the c-th free declaration applied to coordinate c
Phys == [c \in 1..Dim |-> LET i == CHOOSE j \in FreeIdx : Coord(j) = c IN [tag |-> decl[i].tag, coord |-> c]]
\* unit_to_dictionary: every declared key exactly once
DictVal(i) == IF decl[i].kind = "free" THEN [kind |-> "free", tag |-> decl[i].tag, coord |-> Coord(i)]
              ELSE [kind |-> "fixed", tag |-> decl[i].tag, coord |-> 0]
Resolve(i) == IF decl[i].kind = "link" THEN DictVal(IndexOf(decl[i].target)) ELSE DictVal(i)
Dict == [key \in DeclKeys |-> Resolve(IndexOf(key))]

(* ---------------- invariants ---------------- *)
KeysUnique == \A i, j \in DOMAIN decl : i # j => decl[i].key # decl[j].key
\* links point to an earlier declaration that is not itself a link
LinksResolved == \A i \in DOMAIN decl : decl[i].kind = "link" =>
                    \E j \in 1..(i - 1) : decl[j].key = decl[i].target /\ decl[j].kind # "link"
DimIsFree == Dim = Cardinality({i \in DOMAIN decl : decl[i].kind = "free"}) /\ Dim <= Len(decl)
DictTotal == DOMAIN Dict = DeclKeys /\ \A k \in DeclKeys : Dict[k].kind \in {"free", "fixed"}

Init == decl = <<>>
Next == /\ Len(decl) < MaxLen
        /\ \E ka \in KeyArgs : \E da \in DistArgs(Len(decl) + 1) :
              AddOK(ka, da) \/ \E exc \in {"TypeError", "ValueError"} : AddRejected(ka, da, exc)
Spec == Init /\ [][Next]_vars
=============================================================================
