---------------------------- MODULE Checkpoint ----------------------------
(***************************************************************************)
(* Durable state of a checkpointed run: Sampler.write (full rewrite) and   *)
(* Sampler.write_shell_update (incremental), a kill at any instant, and    *)
(* restart of the same script (resume).  nautilus/sampler.py:1242-1380.    *)
(*                                                                         *)
(* Protocol "InPlace"   = the code as found at the pinned commit: write()  *)
(*    unlinks the old file and creates a new one; write_shell_update()     *)
(*    opens the live file r+ and overwrites field after field.             *)
(* Protocol "TmpRename" = the repaired code: both writers fill             *)
(*    <file>.tmp (a copy of the live file for the incremental update) and  *)
(*    rename it over the live file when it is complete and closed.         *)
(*                                                                         *)
(* The in-memory state is a vector of FIELD GROUPS; a sampler step dirties *)
(* a set of groups and is followed by the write kind(s) the code uses for  *)
(* that step; a write kind writes a FIXED set of groups (Written), not the *)
(* dirty set -- whether Written covers Dirty is exactly what C05 needs.    *)
(***************************************************************************)
EXTENDS Naturals, FiniteSets, Sequences, TLC

CONSTANTS Fields,      \* field groups
          StepKinds,   \* set of records [name, dirty, kind] : the step types of the sampler
          UpdWritten,  \* groups written by write_shell_update
          MaxSnap, MaxCrash,
          Protocol     \* "InPlace" | "TmpRename"

Absent == [k \in {} |-> 0]     \* the empty function = no such file
VARIABLES snap,      \* number of in-memory snapshots produced so far
          cont,      \* cont[s][f] : content id of group f in snapshot s
          main, tmp, \* files: Absent or [Fields -> content id, 0 = hole / garbage]
          pc, todo,  \* writer program counter and groups still to write
          alive, committed, crashes
vars == <<snap, cont, main, tmp, pc, todo, alive, committed, crashes>>
Hole == [f \in Fields |-> 0]
Written(kind) == IF kind = "full" THEN Fields ELSE UpdWritten

Init == /\ snap = 0 /\ cont = <<>> /\ main = Absent /\ tmp = Absent
        /\ pc = "idle" /\ todo = {} /\ alive = TRUE /\ committed = {} /\ crashes = 0

\* one sampler step (batch, bound insertion, end of exploration) followed by its write
Step(k) ==
  /\ alive /\ pc = "idle" /\ snap < MaxSnap
  /\ (k.kind = "full" \/ main # Absent) /\ (snap = 0 => k.kind = "full")
  /\ snap' = snap + 1
  /\ cont' = Append(cont, [f \in Fields |-> IF f \in k.dirty \/ snap = 0 THEN snap + 1 ELSE cont[snap][f]])
  /\ todo' = Written(k.kind)
  /\ pc' = IF k.kind = "full" THEN "full:start" ELSE "upd:start"
  /\ UNCHANGED <<main, tmp, alive, committed, crashes>>

(* ---------------- protocol InPlace (code as found) ---------------- *)
IP_Unlink == Protocol = "InPlace" /\ alive /\ pc = "full:start" /\ main' = Absent /\ pc' = "full:create"
             /\ UNCHANGED <<snap, cont, tmp, todo, committed, crashes, alive>>
IP_Create == Protocol = "InPlace" /\ alive /\ pc = "full:create" /\ main' = Hole /\ pc' = "write:main"
             /\ UNCHANGED <<snap, cont, tmp, todo, committed, crashes, alive>>
IP_Open   == Protocol = "InPlace" /\ alive /\ pc = "upd:start" /\ pc' = "write:main"
             /\ UNCHANGED <<snap, cont, main, tmp, todo, committed, crashes, alive>>
IP_Write(f) == /\ Protocol = "InPlace" /\ alive /\ pc = "write:main" /\ f \in todo
               /\ main' = [main EXCEPT ![f] = cont[snap][f]] /\ todo' = todo \ {f}
               /\ UNCHANGED <<snap, cont, tmp, pc, committed, crashes, alive>>
IP_Close == /\ Protocol = "InPlace" /\ alive /\ pc = "write:main" /\ todo = {}
            /\ pc' = "idle" /\ committed' = committed \cup {snap}
            /\ UNCHANGED <<snap, cont, main, tmp, todo, crashes, alive>>

(* ---------------- protocol TmpRename (repaired code) ---------------- *)
TR_CreateTmp == /\ Protocol = "TmpRename" /\ alive /\ pc = "full:start" /\ tmp' = Hole /\ pc' = "write:tmp"
                /\ UNCHANGED <<snap, cont, main, todo, committed, crashes, alive>>
\* shutil.copyfile(main, tmp) is itself not atomic: group by group
TR_CopyStart == /\ Protocol = "TmpRename" /\ alive /\ pc = "upd:start" /\ tmp' = Hole /\ pc' = "copy"
                /\ UNCHANGED <<snap, cont, main, todo, committed, crashes, alive>>
TR_Copy(f) == /\ Protocol = "TmpRename" /\ alive /\ pc = "copy" /\ tmp[f] = 0
              /\ tmp' = [tmp EXCEPT ![f] = main[f]]
              /\ UNCHANGED <<snap, cont, main, pc, todo, committed, crashes, alive>>
TR_CopyDone == /\ Protocol = "TmpRename" /\ alive /\ pc = "copy" /\ \A f \in Fields : tmp[f] # 0
               /\ pc' = "write:tmp" /\ UNCHANGED <<snap, cont, main, tmp, todo, committed, crashes, alive>>
TR_Write(f) == /\ Protocol = "TmpRename" /\ alive /\ pc = "write:tmp" /\ f \in todo
               /\ tmp' = [tmp EXCEPT ![f] = cont[snap][f]] /\ todo' = todo \ {f}
               /\ UNCHANGED <<snap, cont, main, pc, committed, crashes, alive>>
TR_Rename == /\ Protocol = "TmpRename" /\ alive /\ pc = "write:tmp" /\ todo = {}
             /\ main' = tmp /\ tmp' = Absent /\ pc' = "idle" /\ committed' = committed \cup {snap}
             /\ UNCHANGED <<snap, cont, todo, crashes, alive>>

(* ---------------- faults and restart ---------------- *)
Crash == alive /\ crashes < MaxCrash /\ alive' = FALSE /\ crashes' = crashes + 1
         /\ UNCHANGED <<snap, cont, main, tmp, pc, todo, committed>>
IsSnapshot(file, s) == file # Absent /\ \A f \in Fields : file[f] = cont[s][f]
\* restart of the same script: resume from main if it is a snapshot (a stale tmp file is ignored)
Resume == /\ ~alive /\ main # Absent /\ \E s \in 1..snap : IsSnapshot(main, s) /\ snap' = s /\ cont' = SubSeq(cont, 1, s)
          /\ alive' = TRUE /\ pc' = "idle" /\ todo' = {}
          /\ UNCHANGED <<main, tmp, committed, crashes>>

Next == \/ \E k \in StepKinds : Step(k)
        \/ IP_Unlink \/ IP_Create \/ IP_Open \/ IP_Close \/ \E f \in Fields : IP_Write(f)
        \/ TR_CreateTmp \/ TR_CopyStart \/ TR_CopyDone \/ TR_Rename
        \/ \E f \in Fields : TR_Copy(f) \/ TR_Write(f)
        \/ Crash \/ Resume
Spec == Init /\ [][Next]_vars

(* C06: once a first checkpoint exists the file is, in every state (= at every instant a kill can   *)
(* happen), exactly one completely written snapshot ...                                             *)
Atomic == committed # {} => \E s \in 1..Len(cont) : IsSnapshot(main, s)
\* ... namely the last completed one or the one being written
Recent == (committed # {} /\ alive) => \E s \in {snap, snap - 1} : s >= 1 /\ IsSnapshot(main, s)
\* C05 (write side): at every batch boundary the file is the in-memory state
BoundaryEqual == (alive /\ pc = "idle" /\ snap > 0) => IsSnapshot(main, snap)
\* a dead process can always be restarted once a checkpoint was committed
Restartable == (~alive /\ committed # {}) => ENABLED Resume

(* ---- the step table of the sampler (DESIGN 4.3), used by the .cfg files through these definitions ---- *)
RealFields == {"counters", "stats", "shell", "others", "transfer", "bound", "bounds", "rng", "flags"}
RealUpdWritten == {"counters", "stats", "shell", "transfer", "bound", "rng"}
RealSteps == {
  [name |-> "AddSamples",     dirty |-> {"counters", "stats", "shell", "transfer", "bound", "rng"}, kind |-> "upd"],
  [name |-> "AddBoundAccept", dirty |-> {"counters", "stats", "shell", "others", "transfer", "bounds", "bound", "rng"}, kind |-> "full"],
  [name |-> "AddBoundReject", dirty |-> {"counters", "stats", "rng"}, kind |-> "full"],
  [name |-> "EndExploration", dirty |-> {"flags", "stats", "bounds", "others", "shell"}, kind |-> "full"] }
\* deliberately broken tables (negative configurations)
NoRngUpdWritten == RealUpdWritten \ {"rng"}
EndExpAsUpdate == (RealSteps \ {[name |-> "EndExploration", dirty |-> {"flags", "stats", "bounds", "others", "shell"}, kind |-> "full"]})
                  \cup {[name |-> "EndExploration", dirty |-> {"flags", "stats", "bounds", "others", "shell"}, kind |-> "upd"]}
\* small abstract instance for the crash exploration
F3 == {"f1", "f2", "f3"}
Steps3 == {[name |-> "a", dirty |-> {"f1"}, kind |-> "upd"], [name |-> "b", dirty |-> {"f1", "f2"}, kind |-> "upd"],
           [name |-> "c", dirty |-> F3, kind |-> "full"]}
Upd3 == {"f1", "f2"}
=============================================================================
