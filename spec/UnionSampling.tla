--------------------------- MODULE UnionSampling ---------------------------
(* Finite cell model of Union.sample: exact probabilities as rationals.    *)
EXTENDS Integers, FiniteSets, FiniteSetsExt, Folds
CONSTANTS NC, NE, MaxM, Rule    \* Rule \in {"code", "noMult", "equalWeights"}
Cells == 1..NC
Ells == 1..NE
VARIABLES m, cover, cube
vars == <<m, cover, cube>>
Init == /\ m \in [Cells -> 1..MaxM]
        /\ cover \in [Ells -> (SUBSET Cells) \ {{}}]
        /\ cube \in SUBSET Cells
Next == UNCHANGED vars
Spec == Init /\ [][Next]_vars

Sum(f, S) == FoldSet(LAMBDA x, acc : acc + f[x], 0, S)
V(e) == Sum(m, cover[e])
VT == FoldSet(LAMBDA e, acc : acc + V(e), 0, Ells)
Mult(c) == Cardinality({e \in Ells : c \in cover[e]})
Region == {c \in cube : Mult(c) > 0}
\* rationals as <<num, den>>
RECURSIVE GCD(_, _)
GCD(a, b) == IF b = 0 THEN a ELSE GCD(b, a % b)
Norm(q) == IF q[1] = 0 THEN <<0, 1>> ELSE LET g == GCD(q[1], q[2]) IN <<q[1] \div g, q[2] \div g>>
Add(a, b) == LET x == Norm(a)  y == Norm(b) IN Norm(<<x[1] * y[2] + y[1] * x[2], x[2] * y[2]>>)
Eq(a, b) == a[1] * b[2] = b[1] * a[2]
\* probability that one proposal is ellipsoid e, lands in cell c and is accepted
Term(e, c) ==
  CASE Rule = "code"         -> <<V(e) * m[c], VT * V(e) * Mult(c)>>      \* (V_e/VT)(m_c/V_e)(1/mult)
    [] Rule = "noMult"       -> <<V(e) * m[c], VT * V(e)>>
    [] Rule = "equalWeights" -> <<m[c], NE * V(e) * Mult(c)>>             \* (1/NE)(m_c/V_e)(1/mult)
PAccept(c) == FoldSet(LAMBDA e, acc : Add(acc, Term(e, c)), <<0, 1>>, {e \in Ells : c \in cover[e]})
PTotal == FoldSet(LAMBDA c, acc : Add(acc, PAccept(c)), <<0, 1>>, Region)
Measure == Sum(m, Region)
\* accepted points are uniform over the region: probability proportional to measure
Uniform == \A c, d \in Region : LET p == Norm(PAccept(c))  q == Norm(PAccept(d)) IN p[1] * q[2] * m[d] = q[1] * p[2] * m[c]
\* reported volume  = (sum of member volumes) x (acceptance fraction) = true measure of the region
VolumeCalibrated == LET p == Norm(PTotal) IN VT * p[1] = Measure * p[2]

(* ---- one iteration of the while loop of Union.sample, as the code performs it (union.py:305-323) ---- *)
(* A round draws NProp proposals: member e with probability V(e)/VT (multinomial), a point of e,      *)
(* discards proposals outside the cube, and accepts a remaining proposal of multiplicity k iff its    *)
(* uniform draw u satisfies  u > 1 - 1/k  <=>  u*k > k - 1  (u scaled by U).                          *)
AcceptRule(k, u, U) == u * k > (k - 1) * U
\* admissible outcomes when u is only known to one unit: accept / reject / either
AcceptAllowed(k, u, U) == IF (u - 1) * k > (k - 1) * U THEN {TRUE}
                          ELSE IF (u + 1) * k <= (k - 1) * U THEN {FALSE} ELSE {TRUE, FALSE}
=============================================================================
