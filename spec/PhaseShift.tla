----------------------------- MODULE PhaseShift -----------------------------
(***************************************************************************)
(* nautilus/bounds/periodic.py on a dyadic grid.  Positions of a periodic  *)
(* coordinate are k/N (k in 0..N-1); centres and shifted positions live on *)
(* the half grid, so everything is an integer in units of 1/(2N).  On such *)
(* a grid (N a power of two) the float arithmetic of the code is exact,    *)
(* hence the integers below are the exact expected outputs.                *)
(*   compute(): centre = position opposite the largest empty gap           *)
(*   transform(x) = (x - centre + 1/2) mod 1 ;  inverse(y) = (y + centre - 1/2) mod 1 *)
(***************************************************************************)
EXTENDS Integers, FiniteSets, FiniteSetsExt, Sequences, SequencesExt

CONSTANTS N, MaxPts
M == 2 * N                         \* one full turn in half-grid units

VARIABLES P, x                     \* construction points (grid indices), an input position (half-grid units)
vars == <<P, x>>

Sorted(S) == SetToSortSeq(S, <)
\* gap that follows the i-th point of the sorted sequence (the last gap wraps around), in grid units
Gap(s, i) == IF i < Len(s) THEN s[i + 1] - s[i] ELSE s[1] + N - s[Len(s)]
MaxGap(s) == Max({Gap(s, i) : i \in DOMAIN s})
\* centres the code may choose: opposite ANY largest gap (the choice among tied gaps is left open)
CenterSet(S) == LET s == Sorted(S) IN
   {(2 * s[i] + Gap(s, i) + N) % M : i \in {j \in DOMAIN s : Gap(s, j) = MaxGap(s)}}
\* numpy's argmax takes the first largest gap of the sorted array
CenterFirst(S) == LET s == Sorted(S)
                      i == Min({j \in DOMAIN s : Gap(s, j) = MaxGap(s)}) IN (2 * s[i] + Gap(s, i) + N) % M
Fwd(y, c) == (y - c + N + M) % M
Inv(y, c) == (y + c - N + M) % M

Init == /\ P \in {S \in SUBSET (0..(N - 1)) : S # {} /\ Cardinality(S) <= MaxPts}
        /\ x \in 0..(M - 1)
Next == UNCHANGED vars
Spec == Init /\ [][Next]_vars

\* ---- properties (C16), for EVERY admissible centre ----
InRange == \A c \in CenterSet(P) : Fwd(x, c) \in 0..(M - 1) /\ Inv(x, c) \in 0..(M - 1)
ShiftBijection == \A c \in CenterSet(P) : Inv(Fwd(x, c), c) = x /\ Fwd(Inv(x, c), c) = x
\* after the shift the construction points do not wrap: their wrap gap is the largest gap, and they
\* are centred on 1/2
Shifted(c) == {Fwd(2 * p, c) : p \in P}
GapOnBoundary == \A c \in CenterSet(P) :
     LET Q == Shifted(c) IN /\ Min(Q) + M - Max(Q) = 2 * MaxGap(Sorted(P))
                            /\ Min(Q) + Max(Q) = M
CenterFirstAdmissible == CenterFirst(P) \in CenterSet(P)
\* negative variant: centre ON the largest gap instead of opposite to it
WrongFwd(y, c) == (y - c + M) % M
WrongGapOnBoundary == \A c \in CenterSet(P) :
     LET Q == {WrongFwd(2 * p, c) : p \in P} IN Min(Q) + M - Max(Q) = 2 * MaxGap(Sorted(P))
=============================================================================
