---------------------------- MODULE ResumeTrace ----------------------------
(***************************************************************************)
(* C05, code -> spec.  One record per batch boundary k of a real run with  *)
(* checkpointing:                                                          *)
(*   kinds     write kinds the code used in this loop iteration            *)
(*   dirty     field groups whose in-memory content changed in the step    *)
(*   loadDiff  groups in which a sampler constructed from the file differs *)
(*             from the running sampler   (load = memory)                  *)
(*   step1Diff, step2Diff  groups in which the resumed sampler, after one  *)
(*             and two further batches, differs from the uninterrupted one *)
(* Checked against Checkpoint.tla: the dirty set of every step is covered  *)
(* by what the write kinds write (Written), and BoundaryEqual holds on the *)
(* real file (loadDiff empty), also for everything that only matters later *)
(* (one-step bisimulation).                                                *)
(***************************************************************************)
EXTENDS Checkpoint, Json, IOUtils

Log == JsonDeserialize(IOEnv.TRACE_FILE)
VARIABLE l
S2S(s) == {s[k] : k \in DOMAIN s}
Rec(i) == Log[i]
Cover(r) == UNION {Written(k) : k \in S2S(r.kinds)}
Fails(r) ==
     (IF r.kinds # <<>> THEN {} ELSE {"CK_NoWrite"})
  \cup (IF S2S(r.dirty) \subseteq Fields THEN {} ELSE {"CK_UnknownGroup"})
  \cup (IF S2S(r.dirty) \cap Fields \subseteq Cover(r) THEN {} ELSE {"CK_WritesCover"})
  \cup (IF r.loadDiff = <<>> THEN {} ELSE {"CK_LoadEqual"})
  \cup (IF r.step1Diff = <<>> THEN {} ELSE {"CK_Bisim1"})
  \cup (IF r.step2Diff = <<>> THEN {} ELSE {"CK_Bisim2"})
  \cup (IF r.dupCalls = 0 THEN {} ELSE {"CK_NoReevaluation"})
TInit == l = 0 /\ Init
TNext == /\ l < Len(Log) /\ l' = l + 1 /\ UNCHANGED vars
         /\ LET f == Fails(Log[l + 1]) IN f = {} \/ PrintT(<<"@@F", l + 1, f, Log[l + 1].k>>)
TSpec == TInit /\ [][TNext]_<<vars, l>>
Done == /\ PrintT(<<"@@DONE", TLCGet("stats").diameter - 1, Len(Log)>>)
        /\ TLCGet("stats").diameter - 1 = Len(Log)
=============================================================================
