---------------------------- MODULE SamplerTrace ----------------------------
(***************************************************************************)
(* Trace validation of real nautilus runs against Sampler.tla.             *)
(*                                                                         *)
(* The log (JSON, one record per event: the event with its arguments and   *)
(* the complete projected state after it) is read from IOEnv.TRACE_FILE.   *)
(* For every logged step all primed variables are bound to the logged      *)
(* state; then every clause of the claimed action, every state invariant   *)
(* (on the new state) and every step predicate is evaluated.  Names of     *)
(* failing items are printed as  <<"@@F", step, {names}>>; the run is      *)
(* accepted iff TLC reaches the last record ("@@DONE") with no such line.  *)
(* The python driver maps names to the property ids they support.          *)
(***************************************************************************)
EXTENDS Sampler, Json, IOUtils

Log == JsonDeserialize(IOEnv.TRACE_FILE)
VARIABLE l
tvars == <<vars, l>>

J(i) == Log[i].state
S2S(s) == {s[k] : k \in DOMAIN s}
TqOf(q) == [k \in 1..Len(q) |-> [id |-> q[k].id, from |-> q[k].frm, l |-> q[k].l, b |-> q[k].b]]
RunOf(r) == [active |-> r.active, nLikeMax |-> r.nLikeMax, nShell |-> r.nShell, timeout0 |-> r.timeout0,
             discardArg |-> r.discardArg, nlikeAtCall |-> r.nlikeAtCall]

BindPrimed(i) ==
  /\ bseq' = J(i).bseq /\ nextB' = J(i).nextB
  /\ inb' = [k \in 1..Len(J(i).inb) |-> S2S(J(i).inb[k])]
  /\ cube' = J(i).cube /\ lvl' = J(i).lvl /\ blob' = J(i).blob
  /\ shell' = J(i).shell /\ slv' = J(i).slv /\ sbl' = J(i).sbl
  /\ tq' = TqOf(J(i).tq)
  /\ nsamp' = J(i).nsamp /\ nsampExp' = J(i).nsampExp /\ endExp' = J(i).endExp /\ lmin' = J(i).lmin
  /\ explored' = J(i).explored /\ discard' = J(i).discard /\ nlike' = J(i).nlike
  /\ updIter' = J(i).updIter /\ likeIter' = J(i).likeIter /\ pc' = J(i).pc
  /\ run' = RunOf(J(i).run) /\ ret' = J(i).ret /\ neffMet' = J(i).neffMet

TInit ==
  /\ l = 1
  /\ bseq = J(1).bseq /\ nextB = J(1).nextB
  /\ inb = [k \in 1..Len(J(1).inb) |-> S2S(J(1).inb[k])]
  /\ cube = J(1).cube /\ lvl = J(1).lvl /\ blob = J(1).blob
  /\ shell = J(1).shell /\ slv = J(1).slv /\ sbl = J(1).sbl
  /\ tq = TqOf(J(1).tq)
  /\ nsamp = J(1).nsamp /\ nsampExp = J(1).nsampExp /\ endExp = J(1).endExp /\ lmin = J(1).lmin
  /\ explored = J(1).explored /\ discard = J(1).discard /\ nlike = J(1).nlike
  /\ updIter = J(1).updIter /\ likeIter = J(1).likeIter /\ pc = J(1).pc
  /\ run = RunOf(J(1).run) /\ ret = J(1).ret /\ neffMet = J(1).neffMet

(* ---------------- integer statistics and residuals logged next to the state ---------------- *)
ResidBound == 1000      \* units of 1e-9 relative
Abs(x) == IF x < 0 THEN -x ELSE x
SmallSeq(s) == \A k \in DOMAIN s : Abs(s[k]) <= ResidBound
\* evaluated on the state bound to the unprimed variables
StatsFromStoredAt(i) ==
  LET st == Log[i].stats IN
  /\ Len(st.n) = NS /\ Len(st.S) = NS /\ Len(st.Q) = NS
  /\ \A k \in 1..NS : /\ st.n[k] = ShellN(k)
                      /\ st.S[k] = S(k)
                      /\ (S(k) > 0 => st.Q[k] = Q(k))
                      /\ (S(k) = 0 /\ ShellN(k) > 0 => st.Q[k] = -ShellN(k))   \* all -inf: n_eff = n
ResidualsAt(i) ==
  LET r == Log[i].resid IN
  /\ SmallSeq(r.shell_log_v) /\ Abs(r.log_z) <= ResidBound /\ Abs(r.n_eff) <= ResidBound
  /\ Abs(r.eta) <= ResidBound /\ Abs(r.wsum) <= ResidBound /\ Abs(r.wrow) <= ResidBound
  /\ Abs(r.n_eff_post) <= ResidBound
\* statistics are a function of (stored arrays, discard flag): equal digests => equal statistics
StatsFunctionalAt(i) ==
  \A j \in 1..(i - 1) : (Log[j].dig.stored = Log[i].dig.stored /\ J(j).discard = J(i).discard
                          /\ J(j).explored = J(i).explored)
                            => Log[j].dig.stats = Log[i].dig.stats

StateInvNames == {"Aligned", "ShellPartition", "InCube", "NoDup", "TqDisjoint", "TriplesFaithful",
                  "CountLeProposals", "ExpSplitSane", "NLikeExact", "BudgetRespected",
                  "NonEmptyAfterExploration", "StatsFromStored", "Residuals", "StatsFunctional",
                  "Misaligned", "AssocConsistent"}
\* evaluated in the state whose log index is l (primed by the caller for a step)
InvHoldsNow(n) ==
  CASE n = "Aligned" -> Aligned
    [] n = "ShellPartition" -> Aligned => ShellPartition
    [] n = "InCube" -> InCube
    [] n = "NoDup" -> NoDup
    [] n = "TqDisjoint" -> TqDisjoint
    [] n = "TriplesFaithful" -> Aligned => TriplesFaithful
    [] n = "CountLeProposals" -> Aligned => CountLeProposals
    [] n = "ExpSplitSane" -> Aligned => ExpSplitSane
    [] n = "NLikeExact" -> NLikeExact
    [] n = "BudgetRespected" -> BudgetRespected
    [] n = "NonEmptyAfterExploration" -> NonEmptyAfterExploration
    [] n = "StatsFromStored" -> Aligned => StatsFromStoredAt(l)
    [] n = "Residuals" -> ResidualsAt(l)
    [] n = "StatsFunctional" -> StatsFunctionalAt(l)
    [] n = "Misaligned" -> Log[l].misaligned = 0        \* stored (log_l, blob) = pure re-evaluation of the stored point
    [] n = "AssocConsistent" -> Log[l].assocOK           \* shell_association(points[i]) = i
StepNames == {"ExploredStable", "FrozenBounds", "AppendOnly", "ExpSplitFrozen", "EvalImmutable",
              "NLikeMonotone", "ReturnIffDone"}
StepHolds(n) ==
  CASE n = "ExploredStable" -> ExploredStableStep
    [] n = "FrozenBounds" -> FrozenBoundsStep
    [] n = "AppendOnly" -> AppendOnlyStep
    [] n = "ExpSplitFrozen" -> ExpSplitFrozenStep
    [] n = "EvalImmutable" -> EvalImmutableStep
    [] n = "NLikeMonotone" -> NLikeMonotoneStep
    [] n = "ReturnIffDone" -> ReturnIffDoneStep

(* ---------------- arguments of AddSamples reconstructed from the step ---------------- *)
Appended(si) == SubSeq(shell'[si], Len(shell[si]) + 1, Len(shell'[si]))
TransIds(si) == SubSeq(Appended(si), 1, Len(Appended(si)) - NBatch)
TqIndex(id) == CHOOSE k \in DOMAIN tq : tq[k].id = id /\ tq[k].from # 0
AS_ShapeOK(e) ==
  /\ e.si \in 1..NS /\ Len(shell') = NS /\ Len(shell'[e.si]) >= Len(shell[e.si]) + NBatch
  /\ nlike' = nlike + NBatch
  /\ DOMAIN lvl' = 1..nlike' /\ DOMAIN blob' = 1..nlike' /\ DOMAIN inb' = 1..nlike' /\ DOMAIN cube' = 1..nlike'
  /\ \A k \in DOMAIN TransIds(e.si) : \E j \in DOMAIN tq : tq[j].id = TransIds(e.si)[k] /\ tq[j].from # 0
ASFails(e) ==
  IF ~AS_ShapeOK(e) THEN {"AS_Shape"} ELSE
  LET si == e.si
      tids == TransIds(si)
      T == [k \in DOMAIN tids |-> TqIndex(tids[k])]
      np == e.nprop
      R == e.rejLater
      sg == [id \in NewIds |-> inb'[id]]
      lv == [id \in NewIds |-> lvl'[id]]
      bl == [id \in NewIds |-> blob'[id]]
  IN {c \in AS_Clauses : ~AS_Holds(c, si, T, np, R, sg, lv, bl)}
     \cup (IF e.nbound = e.nprop THEN {} ELSE {"AS_NBoundReported"})      \* code's own count = observed count
     \cup (IF e.provOK THEN {} ELSE {"AS_Provenance"})                   \* replaced proposals per old shell = transfers from it
     \cup (IF e.batchCalls = NBatch THEN {} ELSE {"AS_BatchExact"})      \* real likelihood calls of this step
     \cup (IF e.argsOK THEN {} ELSE {"AS_ArgsFaithful"})                 \* likelihood saw prior(point), caller's array intact
     \cup (IF explored /\ ~e.argmaxOK THEN {"AS_ArgMax"} ELSE {})

ABA_ShapeOK == /\ Len(bseq') = NS + 1 /\ Len(shell') = NS + 1 /\ DOMAIN inb' = DOMAIN inb
               /\ NS > 0 /\ TotalStored >= NLive
ABAFails ==
  IF ~ABA_ShapeOK THEN {"ABA_Shape"} ELSE
  LET Sw == {id \in Ids : nextB \in inb'[id]} IN
    (IF ABA_Pre THEN {} ELSE {"ABA_Pre"})
    \cup (IF ABA_Bseq THEN {} ELSE {"ABA_Bseq"})
    \cup (IF ABA_Sig(Sw) THEN {} ELSE {"ABA_Sig"})
    \cup (IF ABA_MoveSet(Sw) THEN {} ELSE {"ABA_MoveSet"})
    \cup (IF ABA_MoveSeq(Sw) THEN {} ELSE {"ABA_MoveSeq"})
    \cup (IF ABA_Tq(Sw) THEN {} ELSE {"ABA_Tq"})
    \cup (IF ABA_Stats THEN {} ELSE {"ABA_Stats"})
    \cup (IF ABA_Threshold THEN {} ELSE {"ABA_Threshold"})
    \cup (IF AB_Counters THEN {} ELSE {"AB_Counters"})
    \cup (IF ABA_Frame THEN {} ELSE {"ABA_Frame"})
ABRFails ==
  IF ~(NS > 0 /\ TotalStored >= NLive /\ Len(lmin') = NS) THEN {"ABR_Shape"} ELSE
    (IF AB_Pre THEN {} ELSE {"AB_Pre"})
    \cup (IF ABR_Threshold THEN {} ELSE {"ABR_Threshold"})
    \cup (IF AB_Counters THEN {} ELSE {"AB_Counters"})
    \cup (IF ABR_Frame THEN {} ELSE {"ABR_Frame"})
EEFails ==
    (IF EE_Pre THEN {} ELSE {"EE_Pre"})
    \cup (IF EE_Drop THEN {} ELSE {"EE_Drop"})
    \cup (IF EE_Freeze THEN {} ELSE {"EE_Freeze"})
    \cup (IF EE_Flags THEN {} ELSE {"EE_Flags"})
    \cup (IF EE_Sig THEN {} ELSE {"EE_Sig"})
    \cup (IF EE_Tq THEN {} ELSE {"EE_Tq"})
    \cup (IF EE_Frame THEN {} ELSE {"EE_Frame"})
RCFails(e) ==
    (IF RC_Pre THEN {} ELSE {"RC_Pre"})
    \cup (IF RC_Effect(e) THEN {} ELSE {"RC_Effect"})
    \cup (IF RC_Frame THEN {} ELSE {"RC_Frame"})
RRFails(e) ==
    (IF RR_Pre THEN {} ELSE {"RR_Pre"})
    \cup (IF RR_Value THEN {} ELSE {"RR_Value"})
    \cup (IF RR_Effect THEN {} ELSE {"RR_Effect"})
    \cup (IF RR_Frame THEN {} ELSE {"RR_Frame"})
    \cup (IF e.neffOK THEN {} ELSE {"RR_NEffOracle"})
\* posterior(): rows are the visible rows of the shells in shell order, with their own level and blob
PostFails(e) ==
    (IF OB_Frame THEN {} ELSE {"OB_Frame"})
    \cup (IF e.rows = PosteriorIds THEN {} ELSE {"PO_Rows"})
    \cup (IF Len(e.rows) = Len(e.rowLvl) /\ Len(e.rows) = Len(e.rowBlob)
             /\ \A k \in DOMAIN e.rows : e.rows[k] \in Ids => (e.rowLvl[k] = lvl[e.rows[k]] /\ e.rowBlob[k] = blob[e.rows[k]])
          THEN {} ELSE {"PO_Triples"})
    \cup (IF e.pointsOK THEN {} ELSE {"PO_Points"})
    \cup (IF Log[l].dig.all = Log[l + 1].dig.all THEN {} ELSE {"OB_Digest"})
\* an observer that reports a value the specification defines: the value must be the specified function of the state
ObsFails(e) ==
    (IF OB_Frame THEN {} ELSE {"OB_Frame"})
    \cup (IF Log[l].dig.all = Log[l + 1].dig.all THEN {} ELSE {"OB_Digest"})
    \cup (IF "occ" \in DOMAIN e /\ Aligned' /\ e.occ # Occupation' THEN {"OB_Occupation"} ELSE {})
SDFails(e) ==
    (IF pc = "out" THEN {} ELSE {"SD_Pre"})
    \cup (IF SD_Only(e.d) THEN {} ELSE {"SD_Only"})
    \cup (IF Log[l].dig.stored = Log[l + 1].dig.stored THEN {} ELSE {"SD_StoredDigest"})
RSFails ==
    (IF RS_Frame /\ tq' = tq THEN {} ELSE {"RS_Frame"})
    \cup (IF Log[l].dig.all = Log[l + 1].dig.all THEN {} ELSE {"RS_Digest"})

ActionFails(e) ==
  CASE e.name = "FirstBound" -> IF FirstBound THEN {} ELSE {"FirstBound"}
    [] e.name = "AddBoundReject" -> ABRFails
    [] e.name = "AddBoundAccept" -> ABAFails
    [] e.name = "AddSamples" -> ASFails(e)
    [] e.name = "EndExploration" -> EEFails
    [] e.name = "SetDiscard" -> SDFails(e)
    [] e.name = "SetDiscardRejected" -> ObsFails(e)
    [] e.name = "RunCall" -> RCFails(e)
    [] e.name = "RunReturn" -> RRFails(e)
    [] e.name = "Observe" -> ObsFails(e)
    [] e.name = "Posterior" -> PostFails(e)
    [] e.name = "Resume" -> RSFails
    [] e.name = "Restart" -> (IF RST_Pre THEN {} ELSE {"RST_LosesEvaluations"})
                             \cup (IF RST_Effect THEN {} ELSE {"RST_Effect"})
    [] OTHER -> {"NoSuchAction"}

Fails(i) == ActionFails(Log[i].event)
            \cup {n \in StateInvNames : ~(InvHoldsNow(n))'}
            \cup {n \in StepNames : ~StepHolds(n)}

TNext == /\ l < Len(Log) /\ l' = l + 1
         /\ BindPrimed(l + 1)
         /\ LET f == Fails(l + 1) IN f = {} \/ PrintT(<<"@@F", l + 1, f>>)
TSpec == TInit /\ [][TNext]_tvars

\* the initial record: a fresh sampler must be Init; any initial state must satisfy the state invariants
InitOK == (l = 1) =>
   LET f == (IF Log[1].event.name = "Init" /\ ~Init THEN {"Init"} ELSE {})
            \cup {n \in StateInvNames : ~InvHoldsNow(n)}
   IN f = {} \/ PrintT(<<"@@F", 1, f>>)
Done == /\ PrintT(<<"@@DONE", TLCGet("stats").diameter, Len(Log)>>)
        /\ TLCGet("stats").diameter = Len(Log)
=============================================================================
