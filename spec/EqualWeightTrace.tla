-------------------------- MODULE EqualWeightTrace --------------------------
(***************************************************************************)
(* C14, code -> spec: every call of the equal-weight posterior on real     *)
(* runs, with the generator cloned before the call so that the draws u_k   *)
(* are known.  fr and u are logged in units of 1e-6; a draw within one     *)
(* unit of frac(r) may go either way (ambiguity window: accepts only).     *)
(***************************************************************************)
EXTENDS EqualWeight, Json, IOUtils

Log == JsonDeserialize(IOEnv.TRACE_FILE)
VARIABLE l
F(name, ok) == IF ok THEN {} ELSE {name}
Allowed(fl, fr, u) == IF u < fr - 1 THEN {fl + 1} ELSE IF u > fr + 1 THEN {fl} ELSE {fl, fl + 1}
\* r.mult[k] = observed number of copies of input row k; r.order = output as input-row indices
Fails(r) ==
  LET n == Len(r.fl) IN
     F("EW_FloorOrCeil", \A k \in 1..n : r.mult[k] \in {r.fl[k], r.fl[k] + 1})
  \cup F("EW_Draw", ~r.cloneOK \/ \A k \in 1..n : r.mult[k] \in Allowed(r.fl[k], r.fr[k], r.u[k]))
  \cup F("EW_NoRepeatBoostLe1", ~r.boostLe1 \/ \A k \in 1..n : r.mult[k] <= 1)
  \cup F("EW_Order", \A i \in 1..(Len(r.order) - 1) : r.order[i] <= r.order[i + 1])
  \cup F("EW_RowsFromInput", \A i \in DOMAIN r.order : r.order[i] \in 1..n)
  \cup F("EW_Count", \A k \in 1..n : Cardinality({i \in DOMAIN r.order : r.order[i] = k}) = r.mult[k])
  \cup F("EW_Triples", r.triplesOK)
  \cup F("EW_WeightsEqual", r.weightsEqual)
  \cup F("EW_WeightedUnchanged", r.weightedUnchanged)
  \cup F("EW_StoredUnchanged", r.storedUnchanged)
  \cup F("EW_DictSame", r.dictSame)          \* return_as_dict=True returns the same rows, weights and blobs
TInit == l = 0 /\ rows = <<>> /\ us = <<>> /\ out = <<>>
TNext == /\ l < Len(Log) /\ l' = l + 1 /\ UNCHANGED vars
         /\ LET f == Fails(Log[l + 1]) IN f = {} \/ PrintT(<<"@@F", l + 1, f>>)
TSpec == TInit /\ [][TNext]_<<vars, l>>
Done == /\ PrintT(<<"@@DONE", TLCGet("stats").diameter - 1, Len(Log)>>)
        /\ TLCGet("stats").diameter - 1 = Len(Log)
=============================================================================
