----------------------------- MODULE CellWorld -----------------------------
(***************************************************************************)
(* Scripted geometry for steering the REAL sampler through branches that   *)
(* ellipsoids rarely produce.  The unit square is cut into NCells vertical *)
(* strips; a "world" fixes                                                 *)
(*    lv[c]      the likelihood level of strip c (0 = -inf)                *)
(*    extra[k]   strips that the k-th constructed bound contains IN        *)
(*               ADDITION to the strips of the live points (this is what   *)
(*               makes bounds non-nested, lets a new bound swallow whole   *)
(*               earlier shells, or makes it too large to be accepted)     *)
(*    drop[k]    a strip of live points the k-th bound fails to contain    *)
(*               (what a neural network may do)                            *)
(* Every world is a legal environment of Sampler.tla (the swallowed set of *)
(* AddBoundAccept is unconstrained there).  The world is built step by     *)
(* step so that TLC can enumerate the worlds (small constants) or sample   *)
(* them (-simulate); harness/cellworld.py realises a world with exact      *)
(* volumes |strips| / NCells, runs the real Sampler.run() on it and the    *)
(* logged steps are validated against Sampler.tla.                         *)
(***************************************************************************)
EXTENDS Naturals, FiniteSets, Sequences, TLC

CONSTANTS NCells, Levels, NBounds
Cells == 1..NCells

VARIABLES lv, extra, drop
vars == <<lv, extra, drop>>

Init == lv = <<>> /\ extra = <<>> /\ drop = <<>>
ChooseLevel == /\ Len(lv) < NCells /\ \E x \in Levels : lv' = Append(lv, x)
               /\ UNCHANGED <<extra, drop>>
ChooseBound == /\ Len(lv) = NCells /\ Len(extra) < NBounds
               /\ \E S \in SUBSET Cells : extra' = Append(extra, S)
               /\ \E D \in {{}} \cup {{c} : c \in Cells} : drop' = Append(drop, D)
               /\ UNCHANGED lv
Next == ChooseLevel \/ ChooseBound
Spec == Init /\ [][Next]_vars
Complete == Len(lv) = NCells /\ Len(extra) = NBounds
NonTrivial == Cardinality({lv[c] : c \in DOMAIN lv}) >= 2       \* something to zoom into
Emit == (Complete /\ NonTrivial) => PrintT(<<"@@W", lv, extra, drop>>)
=============================================================================
