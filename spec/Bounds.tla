------------------------------- MODULE Bounds -------------------------------
(***************************************************************************)
(* Life cycle of a union of ellipsoids (nautilus/bounds/union.py) at the   *)
(* level of its per-ellipsoid records:                                     *)
(*    recs     sequence of [pts, vol, block]: construction points (ids),   *)
(*             volume (integer units) and may-not-split flag per ellipsoid *)
(*    lens     lengths of the four parallel lists of the code              *)
(*             (bounds, points_bounds, log_v_all, block)                   *)
(*    trimmed  construction points dropped by trim()                       *)
(*    cache, nsamp, nrej   sampling cache and counters                     *)
(* Actions: Split (allow_overlap or not) with outcomes SplitOK /           *)
(* SplitRefused, Trim with TrimOK / TrimRefused, Sample(n), LogV.          *)
(* There is no action for an operation that raises.                        *)
(* Each action is a conjunction of named clauses over (state, state').     *)
(***************************************************************************)
EXTENDS Integers, Sequences, FiniteSets, FiniteSetsExt, TLC

CONSTANTS NPmin,      \* n_points_min
          AllPts,     \* ids of the construction points
          Slack,      \* rounding slack of integer volumes
          MaxVol      \* model checking only: volume of the initial ellipsoid

VARIABLES recs, lens, trimmed, cache, nsamp, nrej
vars == <<recs, lens, trimmed, cache, nsamp, nrej>>

Pts(r) == UNION {r[i].pts : i \in DOMAIN r}
Without(s, i) == [k \in 1..(Len(s) - 1) |-> IF k < i THEN s[k] ELSE s[k + 1]]
SumVol(r) == LET RECURSIVE sv(_)
                 sv(k) == IF k = 0 THEN 0 ELSE r[k].vol + sv(k - 1)
             IN sv(Len(r))
N == Len(recs)
LensOf(r) == <<Len(r), Len(r), Len(r), Len(r)>>

(* ---------------- split ---------------- *)
\* the two new records are appended at the end; the parent is the record whose points they partition
SplitOK_Shape == /\ Len(recs') = N + 1
                 /\ \E i \in DOMAIN recs :
                      /\ recs[i].pts = recs'[N].pts \cup recs'[N + 1].pts
                      /\ ~recs[i].block
SP_Parent == CHOOSE i \in DOMAIN recs : recs[i].pts = recs'[N].pts \cup recs'[N + 1].pts
\* all other records keep their points and volume, in order; flags may only go from free to blocked
SplitOK_Survivors == LET old == Without(recs, SP_Parent) IN
       \A k \in 1..(N - 1) : /\ recs'[k].pts = old[k].pts /\ recs'[k].vol = old[k].vol
                             /\ (old[k].block => recs'[k].block)
SplitOK_Partition == recs'[N].pts \cap recs'[N + 1].pts = {}
SplitOK_ChildMin == \A k \in {N, N + 1} : Cardinality(recs'[k].pts) >= NPmin
SplitOK_Shrinks == recs'[N].vol + recs'[N + 1].vol <= recs[SP_Parent].vol + Slack
SplitOK_ChildBlock == \A k \in {N, N + 1} : recs'[k].block = (Cardinality(recs'[k].pts) < 2 * NPmin)
\* larger unblocked ellipsoids were tried (and blocked) first
SplitOK_LargestFirst == LET i == SP_Parent  old == Without(recs, i) IN
       \A k \in 1..(N - 1) : (~old[k].block /\ old[k].vol > recs[i].vol + Slack) => recs'[k].block
SplitOK_Reset == cache' = 0 /\ nsamp' = 0 /\ nrej' = 0 /\ trimmed' = trimmed
SplitOK_Lens == lens' = LensOf(recs')
SplitOK_Clauses == {"SplitOK_Survivors", "SplitOK_Partition", "SplitOK_ChildMin", "SplitOK_Shrinks",
                    "SplitOK_ChildBlock", "SplitOK_LargestFirst", "SplitOK_Reset", "SplitOK_Lens"}
SplitOK_Holds(c) ==
  CASE c = "SplitOK_Survivors" -> SplitOK_Survivors [] c = "SplitOK_Partition" -> SplitOK_Partition
    [] c = "SplitOK_ChildMin" -> SplitOK_ChildMin [] c = "SplitOK_Shrinks" -> SplitOK_Shrinks
    [] c = "SplitOK_ChildBlock" -> SplitOK_ChildBlock [] c = "SplitOK_LargestFirst" -> SplitOK_LargestFirst
    [] c = "SplitOK_Reset" -> SplitOK_Reset [] c = "SplitOK_Lens" -> SplitOK_Lens
\* a refused split leaves ellipsoids and points unchanged (flags may go from free to blocked)
SplitRefused_Frame == /\ Len(recs') = N
                      /\ \A k \in DOMAIN recs : /\ recs'[k].pts = recs[k].pts /\ recs'[k].vol = recs[k].vol
                                                /\ (recs[k].block => recs'[k].block)
                      /\ UNCHANGED <<trimmed, cache, nsamp, nrej>> /\ lens' = lens
\* with overlaps allowed a split is only refused when nothing can be split any more
SplitRefused_AllBlocked(allow) == allow => \A k \in DOMAIN recs' : recs'[k].block

(* ---------------- trim ---------------- *)
TrimOK_Shape == /\ N > 1 /\ Len(recs') = N - 1
                /\ \E i \in DOMAIN recs : \A k \in 1..(N - 1) :
                      /\ recs'[k].pts = Without(recs, i)[k].pts /\ recs'[k].vol = Without(recs, i)[k].vol
TR_Idx == CHOOSE i \in DOMAIN recs : \A k \in 1..(N - 1) :
                      /\ recs'[k].pts = Without(recs, i)[k].pts /\ recs'[k].vol = Without(recs, i)[k].vol
\* the flags travel with their ellipsoids (this is what trim() forgot at the pinned commit)
TrimOK_Flags == \A k \in 1..(N - 1) : recs'[k].block = Without(recs, TR_Idx)[k].block
TrimOK_Trimmed == trimmed' = trimmed \cup recs[TR_Idx].pts
TrimOK_LowestDensity == \A j \in DOMAIN recs :
       Cardinality(recs[TR_Idx].pts) * recs[j].vol <= Cardinality(recs[j].pts) * (recs[TR_Idx].vol + Slack)
TrimOK_Reset == cache' = 0 /\ nsamp' = 0 /\ nrej' = 0
TrimOK_Lens == lens' = LensOf(recs')
TrimRefused_Frame == UNCHANGED <<recs, lens, trimmed, cache, nsamp, nrej>>

(* ---------------- sample / log_v ---------------- *)
Sample_Frame == recs' = recs /\ trimmed' = trimmed /\ lens' = lens
Sample_Counters(n) == /\ nsamp' >= nsamp /\ (nsamp' - nsamp) % 1000 = 0
                      /\ nrej' >= nrej /\ nrej' - nrej <= nsamp' - nsamp
                      /\ cache' = cache + (nsamp' - nsamp) - (nrej' - nrej) - n /\ cache' >= 0
                      /\ (cache >= n => nsamp' = nsamp)
LogV_Counters == IF nsamp = 0 THEN Sample_Counters(100) /\ nsamp' > 0
                 ELSE UNCHANGED <<cache, nsamp, nrej>>

(* ---------------- invariants (C13) ---------------- *)
RecordsAligned == \A k \in 1..4 : lens[k] = N
Partition == /\ \A i, j \in DOMAIN recs : i # j => recs[i].pts \cap recs[j].pts = {}
             /\ Pts(recs) \cup trimmed = AllPts /\ Pts(recs) \cap trimmed = {}
NonEmpty == N >= 1 /\ \A i \in DOMAIN recs : recs[i].pts # {}
CountersSane == nsamp % 1000 = 0 /\ nrej <= nsamp /\ cache >= 0 /\ nrej >= 0
BlockSound == \A i \in DOMAIN recs : Cardinality(recs[i].pts) < 2 * NPmin => recs[i].block

(* ================= model-checking configuration: abstract geometry ================= *)
Init == /\ recs = << [pts |-> AllPts, vol |-> MaxVol, block |-> Cardinality(AllPts) < 2 * NPmin] >>
        /\ lens = <<1, 1, 1, 1>> /\ trimmed = {} /\ cache = 0 /\ nsamp = 0 /\ nrej = 0
Larger(i) == {k \in DOMAIN recs : k # i /\ ~recs[k].block /\ recs[k].vol > recs[i].vol}
MCSplitOK ==
  \E i \in DOMAIN recs : ~recs[i].block /\
    \E A \in SUBSET recs[i].pts : LET B == recs[i].pts \ A IN
      /\ Cardinality(A) >= NPmin /\ Cardinality(B) >= NPmin
      /\ \E va \in 1..recs[i].vol : \E vb \in 1..recs[i].vol :
           /\ va + vb <= recs[i].vol
           /\ LET blocked == [k \in DOMAIN recs |-> IF k \in Larger(i) THEN [recs[k] EXCEPT !.block = TRUE] ELSE recs[k]]
              IN recs' = Without(blocked, i) \o
                   << [pts |-> A, vol |-> va, block |-> Cardinality(A) < 2 * NPmin],
                      [pts |-> B, vol |-> vb, block |-> Cardinality(B) < 2 * NPmin] >>
      /\ lens' = LensOf(recs') /\ trimmed' = trimmed /\ cache' = 0 /\ nsamp' = 0 /\ nrej' = 0
\* every unblocked ellipsoid was tried and would have grown: all get blocked, nothing else changes
MCSplitRefused ==
  /\ recs' = [k \in DOMAIN recs |-> [recs[k] EXCEPT !.block = TRUE]]
  /\ UNCHANGED <<lens, trimmed, cache, nsamp, nrej>>
MCTrimOK ==
  /\ N > 1
  /\ \E i \in DOMAIN recs :
       /\ \A j \in DOMAIN recs : Cardinality(recs[i].pts) * recs[j].vol <= Cardinality(recs[j].pts) * recs[i].vol
       /\ recs' = Without(recs, i) /\ trimmed' = trimmed \cup recs[i].pts
  /\ lens' = LensOf(recs') /\ cache' = 0 /\ nsamp' = 0 /\ nrej' = 0
MCSample == /\ \E a \in {0, 400, 1000} : \E rounds \in 0..1 :
                  /\ (cache >= 37 => rounds = 0) /\ (cache < 37 => rounds = 1 /\ a >= 37)
                  /\ nsamp' = nsamp + 1000 * rounds /\ nrej' = nrej + rounds * (1000 - a)
                  /\ cache' = cache + rounds * a - 37
            /\ nsamp' <= 3000
            /\ UNCHANGED <<recs, lens, trimmed>>
Next == MCSplitOK \/ MCSplitRefused \/ MCTrimOK \/ MCSample
Spec == Init /\ [][Next]_vars
\* the generated steps satisfy the clauses the trace specification demands of the code
StepOK ==
  /\ (Len(recs') = N + 1) => (SplitOK_Shape /\ \A c \in SplitOK_Clauses : SplitOK_Holds(c))
  /\ (Len(recs') = N - 1) => (TrimOK_Shape /\ TrimOK_Flags /\ TrimOK_Trimmed /\ TrimOK_LowestDensity /\ TrimOK_Reset /\ TrimOK_Lens)
  /\ (Len(recs') = N /\ recs' # recs) => SplitRefused_Frame
  /\ (recs' = recs /\ nsamp' # nsamp) => Sample_Frame /\ Sample_Counters(37)
StepsConform == [][StepOK]_vars
\* negative variant: trim that forgets the flags (the defect of the pinned commit, in the model)
MCTrimForgetsFlag ==
  /\ N > 1
  /\ \E i \in DOMAIN recs :
       /\ \A j \in DOMAIN recs : Cardinality(recs[i].pts) * recs[j].vol <= Cardinality(recs[j].pts) * recs[i].vol
       /\ recs' = Without(recs, i) /\ trimmed' = trimmed \cup recs[i].pts
  /\ lens' = <<N - 1, N - 1, N - 1, N>> /\ cache' = 0 /\ nsamp' = 0 /\ nrej' = 0
NextNeg == MCSplitOK \/ MCSplitRefused \/ MCTrimForgetsFlag \/ MCSample
SpecNeg == Init /\ [][NextNeg]_vars
=============================================================================
