------------------------------ MODULE Sampler ------------------------------
(***************************************************************************)
(* State machine of nautilus.Sampler (nautilus/sampler.py).                *)
(*                                                                         *)
(* One action per critical section of the code:                            *)
(*   RunCall / RunReturn      run(): entry, loop guard, return value       *)
(*   FirstBound               run():422-425  (unit cube, first shell)      *)
(*   AddBoundReject/Accept    add_bound():971-1080                         *)
(*   AddSamples               add_samples():1082-1133 + sample_shell()     *)
(*   EndExploration           run():452-477                                *)
(*   SetDiscard               discard_exploration setter 516-536           *)
(*   Observe / Resume         accessors; Sampler(resume=True)              *)
(*                                                                         *)
(* Every action is a conjunction of NAMED CLAUSES.  The model-checking     *)
(* configuration uses Next built from the actions; the trace specification *)
(* (SamplerTrace.tla) binds all primed variables to the logged next state  *)
(* and evaluates each clause as a predicate, so a rejection names the      *)
(* clause.  Points are abstracted to ids (index of first evaluation),      *)
(* likelihoods to integer levels (0 = -inf), bounds to creation numbers,   *)
(* geometry to signatures inb[id] = set of bound names containing point id.*)
(***************************************************************************)
EXTENDS Integers, Sequences, FiniteSets, SequencesExt, FiniteSetsExt, TLC

CONSTANTS NLive, NBatch, NUpdate, NLikeNewBound, NPointsMin,
          Levels,      \* set of naturals: likelihood levels (0 = -inf)
          MaxBounds, MaxPts, MaxRej,   \* bounds of the model-checking configuration only
          Unlimited    \* value standing for n_like_max = infinity (-1)

VARIABLES
  bseq,      \* sequence of bound names (creation numbers); bseq[1] is the unit cube
  nextB,     \* next bound name
  inb,       \* id -> set of names of current bounds that contain the point
  cube,      \* id -> BOOLEAN: the point lies in [0,1)^d
  lvl,       \* id -> level returned by the likelihood when the point was evaluated
  blob,      \* id -> blob code returned by the likelihood when the point was evaluated
  shell,     \* per shell: sequence of ids (rows of Sampler.points[i])
  slv,       \* per shell: stored level of each row   (Sampler.log_l[i])
  sbl,       \* per shell: stored blob code of each row (Sampler.blobs[i])
  tq,        \* transfer queue: sequence of [id, from, l, b]; from = 0 once used (shell_t = -1)
  nsamp,     \* proposals drawn from each bound (shell_n_sample)
  nsampExp,  \* shell_n_sample_exp
  endExp,    \* shell_end_exp
  lmin,      \* shell_log_l_min as a level
  explored, discard,
  nlike, updIter, likeIter,
  pc,        \* "out" | "top" | "bounded" | "batched" : position inside run()
  run,       \* arguments of the active run() call
  ret,       \* value returned by the last run(): "none" | "T" | "F"
  neffMet    \* oracle bit: n_eff >= the n_eff target of the active run()

vars == <<bseq, nextB, inb, cube, lvl, blob, shell, slv, sbl, tq, nsamp, nsampExp, endExp,
          lmin, explored, discard, nlike, updIter, likeIter, pc, run, ret, neffMet>>

MinusOne == -1      \* cfg files cannot write a negative literal: Unlimited <- MinusOne
NoRun == [active |-> FALSE, nLikeMax |-> Unlimited, nShell |-> 1, timeout0 |-> FALSE,
          discardArg |-> FALSE, nlikeAtCall |-> 0]

NS == Len(bseq)
Ids == DOMAIN lvl
SeqSet(s) == {s[i] : i \in DOMAIN s}
AllStoredSeq == FoldLeft(LAMBDA acc, s : acc \o s, <<>>, shell)
AllStoredLv == FoldLeft(LAMBDA acc, s : acc \o s, <<>>, slv)
TotalStored == Len(AllStoredSeq)
StoredSet == SeqSet(AllStoredSeq)

(* ---- the view selected by discard_exploration (posterior():594-603, update_shell_info():908-918) ---- *)
Start(i) == IF discard /\ explored THEN endExp[i] ELSE 0
View(i) == SubSeq(shell[i], Start(i) + 1, Len(shell[i]))
ViewLv(i) == SubSeq(slv[i], Start(i) + 1, Len(slv[i]))
ShellN(i) == Len(shell[i]) - Start(i)
ShellNSample(i) == IF discard /\ explored THEN nsamp[i] - nsampExp[i] ELSE nsamp[i]
SumSeq(s) == FoldLeft(LAMBDA acc, x : acc + x, 0, s)
SumSqSeq(s) == FoldLeft(LAMBDA acc, x : acc + x * x, 0, s)
S(i) == SumSeq(ViewLv(i))           \* sum of likelihood levels of the visible rows of shell i
Q(i) == SumSqSeq(ViewLv(i))         \* sum of squared levels
PosteriorIds == FoldLeft(LAMBDA acc, i : acc \o View(i), <<>>, [i \in 1..NS |-> i])
(* Estimators, as functions of the stored samples and the bound volumes Vb[i]   *)
(* (reals, outside TLC's reach; evaluated by the projection layer, compared as  *)
(* integer residuals):                                                          *)
(*   V(i)   = Vb[i] * ShellN(i) / ShellNSample(i)        shell volume           *)
(*   Z      = SUM_i V(i) * S(i) / ShellN(i)  = SUM_i Vb[i] * S(i)/ShellNSample(i)*)
(*   w(row) = lvl(row) * Vb[i] / ShellNSample(i) / Z     posterior weight       *)
(*   NEff   = (SUM w)^2 / SUM w^2                        Kish                   *)

Init == /\ bseq = <<>> /\ nextB = 1 /\ inb = <<>> /\ cube = <<>> /\ lvl = <<>> /\ blob = <<>>
        /\ shell = <<>> /\ slv = <<>> /\ sbl = <<>>
        /\ tq = <<>> /\ nsamp = <<>> /\ nsampExp = <<>> /\ endExp = <<>> /\ lmin = <<>>
        /\ explored = FALSE /\ discard = FALSE /\ nlike = 0 /\ updIter = 0 /\ likeIter = 0
        /\ pc = "out" /\ run = NoRun /\ ret = "none" /\ neffMet = FALSE

(* =========================== run(): call, guard, return =========================== *)
ShellsFull == \A i \in 1..NS : ShellN(i) >= run.nShell
Success == explored /\ ShellsFull /\ neffMet
BudgetLeft == run.nLikeMax = Unlimited \/ nlike < run.nLikeMax
CanIterate == run.active /\ BudgetLeft /\ ~run.timeout0 /\ ~Success

RC_Pre == pc = "out" /\ ~run.active
RC_Effect(a) == /\ run' = [active |-> TRUE, nLikeMax |-> a.nLikeMax, nShell |-> a.nShell,
                           timeout0 |-> a.timeout0, discardArg |-> a.discardArg,
                           nlikeAtCall |-> nlike]
                /\ pc' = "top" /\ ret' = "none"
RC_Frame == UNCHANGED <<bseq, nextB, inb, cube, lvl, blob, shell, slv, sbl, tq, nsamp, nsampExp,
                        endExp, lmin, explored, discard, nlike, updIter, likeIter>>
RunCall(a) == RC_Pre /\ RC_Effect(a) /\ RC_Frame /\ neffMet' \in BOOLEAN

RR_Pre == pc \in {"top", "batched"} /\ run.active /\ NS > 0 /\ ~CanIterate
RR_Value == ret' = IF Success THEN "T" ELSE "F"
RR_Effect == pc' = "out" /\ run' = [run EXCEPT !.active = FALSE]
RR_Frame == UNCHANGED <<bseq, nextB, inb, cube, lvl, blob, shell, slv, sbl, tq, nsamp, nsampExp,
                        endExp, lmin, explored, discard, nlike, updIter, likeIter, neffMet>>
RunReturn == RR_Pre /\ RR_Value /\ RR_Effect /\ RR_Frame

(* =========================== first bound =========================== *)
FB_Pre == NS = 0 /\ pc = "top" /\ run.active
FB_Effect == /\ bseq' = <<nextB>> /\ nextB' = nextB + 1
             /\ shell' = << <<>> >> /\ slv' = << <<>> >> /\ sbl' = << <<>> >>
             /\ nsamp' = <<0>> /\ lmin' = <<0>>
             /\ updIter' = -NLive /\ likeIter' = 0 /\ pc' = "top"
FB_Frame == UNCHANGED <<inb, cube, lvl, blob, tq, nsampExp, endExp, explored, discard, nlike,
                        run, ret, neffMet>>
FirstBound == FB_Pre /\ FB_Effect /\ FB_Frame

(* =========================== add_bound =========================== *)
CountWhere(P(_)) == Cardinality({k \in 1..TotalStored : P(AllStoredLv[k])})
\* the NLive-th largest level among the stored points (log_l[-n_live] of the sorted array)
NthLargest(n) == CHOOSE v \in Levels :
      /\ CountWhere(LAMBDA x : x > v) < n
      /\ CountWhere(LAMBDA x : x >= v) >= n
LMinCand ==
  LET c == NthLargest(NLive) IN
  IF CountWhere(LAMBDA x : x = c) > 1 /\ CountWhere(LAMBDA x : x > c) >= NPointsMin
  THEN Min({v \in Levels : v > c /\ CountWhere(LAMBDA x : x = v) > 0})
  ELSE c
NoneBelow(c) == CountWhere(LAMBDA x : x < c) = 0
AddBoundDue == (updIter >= NUpdate \/ likeIter >= NLikeNewBound) /\ TotalStored > NLive

AB_Pre == /\ NS > 0 /\ ~explored /\ pc \in {"top", "batched"} /\ CanIterate /\ AddBoundDue
AB_Counters == updIter' = 0 /\ likeIter' = 0 /\ pc' = "bounded"

ABR_Threshold == lmin' = [lmin EXCEPT ![NS] = LMinCand]
ABR_Frame == UNCHANGED <<bseq, nextB, inb, cube, lvl, blob, shell, slv, sbl, tq, nsamp, nsampExp,
                         endExp, explored, discard, nlike, run, ret, neffMet>>
AddBoundReject == AB_Pre /\ ABR_Threshold /\ AB_Counters /\ ABR_Frame

KeepIdx(i, Sw) == SelectSeq([k \in 1..Len(shell[i]) |-> k], LAMBDA k : shell[i][k] \notin Sw)
MoveIdx(i, Sw) == SelectSeq([k \in 1..Len(shell[i]) |-> k], LAMBDA k : shell[i][k] \in Sw)
Pick(s, idx) == [k \in 1..Len(idx) |-> s[idx[k]]]
MovedRows(i, Sw) == LET m == MoveIdx(i, Sw) IN
   [k \in 1..Len(m) |-> [id |-> shell[i][m[k]], from |-> bseq[i], l |-> slv[i][m[k]], b |-> sbl[i][m[k]]]]
ABA_Pre == AB_Pre /\ ~NoneBelow(LMinCand)
ABA_Bseq == bseq' = Append(bseq, nextB) /\ nextB' = nextB + 1
ABA_Sig(Sw) == inb' = [id \in Ids |-> IF id \in Sw THEN inb[id] \cup {nextB} ELSE inb[id]]
\* every earlier-shell point the new bound contains leaves its shell (C01) ...
ABA_MoveSet(Sw) == /\ Len(shell') = NS + 1 /\ shell'[NS + 1] = <<>>
                   /\ \A i \in 1..NS : SeqSet(shell'[i]) = SeqSet(shell[i]) \ Sw
\* ... order of the remaining rows preserved, parallel arrays filtered with the same mask (C03)
ABA_MoveSeq(Sw) == /\ shell' = Append([i \in 1..NS |-> Pick(shell[i], KeepIdx(i, Sw))], <<>>)
                   /\ slv' = Append([i \in 1..NS |-> Pick(slv[i], KeepIdx(i, Sw))], <<>>)
                   /\ sbl' = Append([i \in 1..NS |-> Pick(sbl[i], KeepIdx(i, Sw))], <<>>)
\* ... and enters the transfer queue, shell by shell, with its own likelihood and blob
ABA_Tq(Sw) == tq' = FoldLeft(LAMBDA acc, i : acc \o MovedRows(i, Sw), <<>>, [i \in 1..NS |-> i])
ABA_Stats == nsamp' = Append(nsamp, 0)
ABA_Threshold == lmin' = Append(lmin, LMinCand)
ABA_Frame == UNCHANGED <<cube, lvl, blob, nsampExp, endExp, explored, discard, nlike, run, ret, neffMet>>
AddBoundAccept(Sw) ==
  /\ ABA_Pre /\ NS < MaxBounds /\ Sw \subseteq Ids
  /\ ABA_Bseq /\ ABA_Sig(Sw) /\ ABA_MoveSeq(Sw) /\ ABA_MoveSet(Sw) /\ ABA_Tq(Sw)
  /\ ABA_Stats /\ ABA_Threshold /\ AB_Counters /\ ABA_Frame

(* =========================== add_samples / sample_shell =========================== *)
UnusedTq == {k \in DOMAIN tq : tq[k].from # 0}
\* association of a signature among the first NS-1 bounds (shell_association(n_max = len(bounds)-1))
Assoc(sg) == LET c == {i \in 1..(NS - 1) : bseq[i] \in sg} IN IF c = {} THEN 0 ELSE bseq[Max(c)]
NewIds == (nlike + 1)..(nlike + NBatch)
IdSeq == [k \in 1..NBatch |-> nlike + k]
TransferMode(si) == ~explored /\ si = NS /\ UnusedTq # {}

\* which shell may be sampled now; a due bound was tried first; the budget allows another batch
AS_Pre(si) == /\ NS > 0 /\ si \in 1..NS /\ nlike + NBatch <= MaxPts /\ CanIterate
              /\ IF explored THEN pc \in {"top", "batched"}
                 ELSE si = NS /\ (pc = "bounded" \/ (pc \in {"top", "batched"} /\ ~AddBoundDue))
\* sampling phase, run():479-491: the first shell with too few points, else any
AS_ShellChoice(si) == explored =>
       LET low == {i \in 1..NS : ShellN(i) < run.nShell} IN low # {} => si = Min(low)
\* C10: no batch is started once the budget is used up
AS_Budget == BudgetLeft /\ ~run.timeout0
AS_Pc == pc' = IF explored THEN "top" ELSE "batched"
\* fresh points lie in bound si and in no later bound (sample_shell:792-798), in the unit cube
AS_Fresh(si, sg) == \A id \in NewIds : /\ bseq[si] \in sg[id] /\ sg[id] \subseteq SeqSet(bseq)
                                        /\ \A j \in (si + 1)..NS : bseq[j] \notin sg[id]
AS_Cube == \A id \in NewIds : id \in DOMAIN cube' /\ cube'[id]
\* only unused candidates, only into the newest shell, only while exploring
AS_TransferSet(si, T) == IF TransferMode(si)
     THEN SeqSet(T) \subseteq UnusedTq /\ Len(T) = Cardinality(SeqSet(T))
     ELSE T = <<>>
\* candidates left over from old shell s => no fresh point of this call came from s
AS_Maximal(si, T, sg) == TransferMode(si) =>
     \A k \in UnusedTq \ SeqSet(T) : \A id \in NewIds : Assoc(sg[id]) # tq[k].from
\* shell' = shell ++ transferred ++ fresh, with their own levels and blobs
AS_ShellSet(si, T) == /\ Len(shell') = NS
                      /\ \A i \in 1..NS : SeqSet(shell'[i]) =
                            IF i = si THEN SeqSet(shell[i]) \cup {tq[T[k]].id : k \in DOMAIN T} \cup NewIds
                            ELSE SeqSet(shell[i])
AS_ShellSeq(si, T, lv, bl) ==
    /\ shell' = [shell EXCEPT ![si] = @ \o [k \in 1..Len(T) |-> tq[T[k]].id] \o IdSeq]
    /\ slv' = [slv EXCEPT ![si] = @ \o [k \in 1..Len(T) |-> tq[T[k]].l] \o [k \in 1..NBatch |-> lv[nlike + k]]]
    /\ sbl' = [sbl EXCEPT ![si] = @ \o [k \in 1..Len(T) |-> tq[T[k]].b] \o [k \in 1..NBatch |-> bl[nlike + k]]]
AS_Tq(T) == tq' = [k \in DOMAIN tq |-> IF k \in SeqSet(T) THEN [tq[k] EXCEPT !.from = 0] ELSE tq[k]]
\* proposal count: every point the bound handed out is counted (np = proposals seen by the observer)
AS_Proposals(si, np) == nsamp' = [nsamp EXCEPT ![si] = @ + np]
\* ... and each of them survived, was replaced by a transferred point, or lay in a later bound
AS_Accounted(si, T, np, R) == /\ np = NBatch + Len(T) + R /\ R >= 0
                              /\ (si = NS => R = 0)
                              /\ (TransferMode(si) => R = 0)
AS_Points(sg, lv, bl) ==
    /\ inb' = [id \in Ids \cup NewIds |-> IF id \in NewIds THEN sg[id] ELSE inb[id]]
    /\ lvl' = [id \in Ids \cup NewIds |-> IF id \in NewIds THEN lv[id] ELSE lvl[id]]
    /\ blob' = [id \in Ids \cup NewIds |-> IF id \in NewIds THEN bl[id] ELSE blob[id]]
    /\ \A id \in Ids : cube'[id] = cube[id]
AS_Count == nlike' = nlike + NBatch
AS_Iter(si, lv) == IF explored THEN UNCHANGED <<updIter, likeIter>>
     ELSE /\ updIter' = updIter + Cardinality({id \in NewIds : lv[id] >= lmin[si]})
          /\ likeIter' = likeIter + NBatch
AS_Frame == UNCHANGED <<bseq, nextB, nsampExp, endExp, lmin, explored, discard, run, ret>>

AS_Clauses == {"AS_Pre", "AS_ShellChoice", "AS_Budget", "AS_Pc", "AS_Fresh", "AS_Cube", "AS_TransferSet",
               "AS_Maximal", "AS_ShellSet", "AS_ShellSeq", "AS_Tq", "AS_Proposals", "AS_Accounted",
               "AS_Points", "AS_Count", "AS_Iter", "AS_Frame"}
AS_Holds(c, si, T, np, R, sg, lv, bl) ==
  CASE c = "AS_Pre" -> AS_Pre(si) [] c = "AS_ShellChoice" -> AS_ShellChoice(si)
    [] c = "AS_Budget" -> AS_Budget [] c = "AS_Pc" -> AS_Pc
    [] c = "AS_Fresh" -> AS_Fresh(si, sg) [] c = "AS_Cube" -> AS_Cube
    [] c = "AS_TransferSet" -> AS_TransferSet(si, T) [] c = "AS_Maximal" -> AS_Maximal(si, T, sg)
    [] c = "AS_ShellSet" -> AS_ShellSet(si, T) [] c = "AS_ShellSeq" -> AS_ShellSeq(si, T, lv, bl)
    [] c = "AS_Tq" -> AS_Tq(T) [] c = "AS_Proposals" -> AS_Proposals(si, np)
    [] c = "AS_Accounted" -> AS_Accounted(si, T, np, R)
    [] c = "AS_Points" -> AS_Points(sg, lv, bl) [] c = "AS_Count" -> AS_Count
    [] c = "AS_Iter" -> AS_Iter(si, lv) [] c = "AS_Frame" -> AS_Frame
\* (explicit order: TLC needs the clauses that determine a primed variable before those that test it)
AddSamples(si, T, np, R, sg, lv, bl) ==
  /\ AS_Pre(si) /\ AS_ShellChoice(si) /\ AS_Budget /\ AS_Pc /\ AS_Fresh(si, sg)
  /\ AS_TransferSet(si, T) /\ AS_Maximal(si, T, sg) /\ AS_ShellSeq(si, T, lv, bl) /\ AS_ShellSet(si, T)
  /\ AS_Tq(T) /\ AS_Proposals(si, np) /\ AS_Accounted(si, T, np, R) /\ AS_Points(sg, lv, bl) /\ AS_Cube
  /\ AS_Count /\ AS_Iter(si, lv) /\ AS_Frame

(* =========================== end of exploration =========================== *)
KeepShells == SelectSeq([i \in 1..NS |-> i], LAMBDA i : Len(shell[i]) > 0)
Sel(s) == [k \in 1..Len(KeepShells) |-> s[KeepShells[k]]]
EE_Pre == ~explored /\ pc = "batched" /\ run.active
\* empty shells are dropped from all per-shell sequences, nothing else moves
EE_Drop == /\ bseq' = Sel(bseq) /\ shell' = Sel(shell) /\ slv' = Sel(slv) /\ sbl' = Sel(sbl)
           /\ nsamp' = Sel(nsamp) /\ lmin' = Sel(lmin)
EE_Freeze == /\ nsampExp' = Sel(nsamp) /\ endExp' = [k \in 1..Len(KeepShells) |-> Len(shell[KeepShells[k]])]
EE_Flags == explored' = TRUE /\ discard' = run.discardArg /\ pc' = "top"
EE_Sig == inb' = [id \in Ids |-> inb[id] \cap SeqSet(bseq')]
EE_Tq == tq' = <<>>
EE_Frame == UNCHANGED <<nextB, cube, lvl, blob, nlike, updIter, likeIter, run, ret>>
EndExploration == EE_Pre /\ EE_Drop /\ EE_Freeze /\ EE_Flags /\ EE_Sig /\ EE_Tq /\ EE_Frame
                  /\ neffMet' \in BOOLEAN

(* =========================== view toggle, observers, resume =========================== *)
SD_Only(d) == /\ discard' = d
              /\ UNCHANGED <<bseq, nextB, inb, cube, lvl, blob, shell, slv, sbl, tq, nsamp, nsampExp,
                             endExp, lmin, explored, nlike, updIter, likeIter, pc, run, ret>>
SetDiscard(d) == pc = "out" /\ SD_Only(d) /\ neffMet' = FALSE
OB_Frame == UNCHANGED vars
Observe == OB_Frame
\* constructing a new sampler from the checkpoint changes nothing that matters
RS_Frame == /\ UNCHANGED <<bseq, nextB, inb, cube, lvl, blob, shell, slv, sbl, nsamp, nsampExp, endExp, lmin,
                           explored, discard, nlike, updIter, likeIter>>
            /\ (~explored => tq' = tq)
            /\ pc' = "out" /\ run' = [run EXCEPT !.active = FALSE] /\ neffMet' = FALSE
Resume == pc = "out" /\ RS_Frame /\ UNCHANGED ret /\ tq' = tq

\* Sampler(resume=True) when NO checkpoint exists yet (no batch was completed): a fresh sampler.  Legal only if no
\* evaluation is lost by it.
RST_Pre == pc = "out" /\ nlike = 0
RST_Effect == /\ bseq' = <<>> /\ inb' = <<>> /\ cube' = <<>> /\ lvl' = <<>> /\ blob' = <<>>
              /\ shell' = <<>> /\ slv' = <<>> /\ sbl' = <<>> /\ tq' = <<>> /\ nsamp' = <<>> /\ nsampExp' = <<>>
              /\ endExp' = <<>> /\ lmin' = <<>> /\ explored' = FALSE /\ discard' = FALSE /\ nlike' = 0
              /\ pc' = "out" /\ run' = [run EXCEPT !.active = FALSE] /\ neffMet' = FALSE
Restart == RST_Pre /\ RST_Effect /\ UNCHANGED <<nextB, ret>> /\ updIter' = 0 /\ likeIter' = 0

(* =========================== model-checking Next =========================== *)
\* signatures a fresh point of shell si can have: cube, bound si, any earlier bounds
FreshSigs(si) == {sg \cup {bseq[1], bseq[si]} : sg \in SUBSET {bseq[j] : j \in 2..(si - 1)}}
RunArgs == [nLikeMax : {Unlimited, nlike + 1, nlike + NBatch}, nShell : {1, 2},
            timeout0 : BOOLEAN, discardArg : BOOLEAN]
AddSamplesMC ==
  \E si \in 1..NS : \E R \in 0..MaxRej :
    \E sg \in [NewIds -> FreshSigs(si)] : \E lv \in [NewIds -> Levels] :
      \E u \in SUBSET UnusedTq :
        /\ \A a, b \in NewIds : a < b => lv[a] <= lv[b]       \* batches in canonical order
        /\ cube' = [id \in Ids \cup NewIds |-> TRUE]
        /\ neffMet' \in (IF explored THEN BOOLEAN ELSE {FALSE})
        /\ AddSamples(si, SetToSortSeq(u, <), NBatch + Cardinality(u) + R, R, sg, lv,
                      [id \in NewIds |-> id])
NextCore ==
  \/ FirstBound
  \/ AddBoundReject
  \/ \E Sw \in SUBSET StoredSet : AddBoundAccept(Sw)
  \/ AddSamplesMC
  \/ EndExploration
NextRun ==
  \/ NextCore
  \/ \E a \in RunArgs : RunCall(a)
  \/ RunReturn
  \/ \E d \in BOOLEAN : SetDiscard(d)
  \/ Resume
  \/ Restart
InitCore == /\ bseq = <<>> /\ nextB = 1 /\ inb = <<>> /\ cube = <<>> /\ lvl = <<>> /\ blob = <<>>
            /\ shell = <<>> /\ slv = <<>> /\ sbl = <<>>
            /\ tq = <<>> /\ nsamp = <<>> /\ nsampExp = <<>> /\ endExp = <<>> /\ lmin = <<>>
            /\ explored = FALSE /\ discard = FALSE /\ nlike = 0 /\ updIter = 0 /\ likeIter = 0
            /\ pc = "top" /\ ret = "none" /\ neffMet = FALSE
            /\ run \in [active : {TRUE}, nLikeMax : {Unlimited}, nShell : {1, 2}, timeout0 : {FALSE},
                        discardArg : BOOLEAN, nlikeAtCall : {0}]
SpecCore == InitCore /\ [][NextCore]_vars
SpecRun == Init /\ [][NextRun]_vars

(* =========================== invariants =========================== *)
\* every stored row is a point that was evaluated (a row the likelihood never saw has no id)
RowsKnown == /\ \A i \in DOMAIN shell : \A k \in DOMAIN shell[i] : shell[i][k] \in Ids
             /\ \A k \in DOMAIN tq : tq[k].id \in Ids
Aligned == /\ Len(shell) = NS /\ Len(slv) = NS /\ Len(sbl) = NS /\ Len(nsamp) = NS /\ Len(lmin) = NS
           /\ RowsKnown
           /\ \A i \in 1..NS : Len(slv[i]) = Len(shell[i]) /\ Len(sbl[i]) = Len(shell[i])
           /\ explored => Len(nsampExp) = NS /\ Len(endExp) = NS
\* C01: each stored point is inside its own bound and outside every later one
ShellPartition == \A i \in 1..NS : \A k \in 1..Len(shell[i]) :
      LET id == shell[i][k] IN /\ bseq[i] \in inb[id]
                                /\ \A j \in (i + 1)..NS : bseq[j] \notin inb[id]
\* what shell_bound_occupation(fractional=False) reports: entry (i, k) = number of stored points of shell i that lie
\* inside bound k.  By ShellPartition the matrix is lower triangular with the shell sizes on the diagonal.
Occupation == [i \in 1..NS |-> [k \in 1..NS |->
                 Cardinality({j \in DOMAIN shell[i] : bseq[k] \in inb[shell[i][j]]})]]
OccupationTriangular == Aligned => \A i \in 1..NS : /\ Occupation[i][i] = Len(shell[i])
                                                       /\ \A k \in (i + 1)..NS : Occupation[i][k] = 0
InCube == \A id \in Ids : cube[id]
\* C03
NoDup == Len(AllStoredSeq) = Cardinality(StoredSet)
TqDisjoint == \A k \in UnusedTq : tq[k].id \notin StoredSet
TriplesFaithful == /\ \A i \in 1..NS : \A k \in 1..Len(shell[i]) :
                         slv[i][k] = lvl[shell[i][k]] /\ sbl[i][k] = blob[shell[i][k]]
                   /\ \A k \in DOMAIN tq : tq[k].l = lvl[tq[k].id] /\ tq[k].b = blob[tq[k].id]
\* C02
CountLeProposals == \A i \in 1..NS : ShellN(i) <= ShellNSample(i) /\ ShellN(i) >= 0
ExpSplitSane == explored => \A i \in 1..NS : endExp[i] <= Len(shell[i]) /\ nsampExp[i] <= nsamp[i]
                                               /\ endExp[i] <= nsampExp[i]
\* C10
NLikeExact == nlike = Cardinality(Ids) /\ Ids = 1..nlike
BudgetRespected == (run.nLikeMax # Unlimited) =>
                      (nlike = run.nlikeAtCall \/ nlike < run.nLikeMax + NBatch)
\* C12
NonEmptyAfterExploration == explored => \A i \in 1..NS : Len(shell[i]) >= 1
\* step predicates of the action properties (also evaluated per logged step by the trace spec)
ExploredStableStep == explored => explored'
FrozenBoundsStep == explored => bseq' = bseq
AppendOnlyStep == explored => /\ Len(shell') = Len(shell)
                              /\ \A i \in 1..NS : /\ IsPrefix(shell[i], shell'[i])
                                                   /\ IsPrefix(slv[i], slv'[i]) /\ IsPrefix(sbl[i], sbl'[i])
ExpSplitFrozenStep == explored => endExp' = endExp /\ nsampExp' = nsampExp
EvalImmutableStep == \A id \in Ids : id \in DOMAIN lvl' /\ lvl'[id] = lvl[id] /\ blob'[id] = blob[id]
ReturnIffDoneStep == (ret' = "T" /\ ret # "T") => (explored' /\ ShellsFull')
NLikeMonotoneStep == nlike' >= nlike /\ (nlike' - nlike) \in {0, NBatch}
ExploredStable == [][ExploredStableStep]_vars
FrozenBounds == [][FrozenBoundsStep]_vars
AppendOnly == [][AppendOnlyStep]_vars
ExpSplitFrozen == [][ExpSplitFrozenStep]_vars
EvalImmutable == [][EvalImmutableStep]_vars
NLikeMonotone == [][NLikeMonotoneStep]_vars
ReturnIffDone == [][ReturnIffDoneStep]_vars

\* state constraint of the model-checking configurations
\* (nextB is bounded too: FirstBound; Restart; FirstBound; ... creates a fresh name each time)
MCConstraint == nlike <= MaxPts /\ NS <= MaxBounds /\ nextB <= MaxBounds + 3
=============================================================================
