------------------------------- MODULE Driver -------------------------------
(***************************************************************************)
(* Environment model: what a user can do with a Sampler object between and *)
(* around run() calls.  TLC enumerates (or samples) the command sequences; *)
(* each one is replayed on the real code and the resulting event log is    *)
(* validated against Sampler.tla (SamplerTrace.tla).                       *)
(*                                                                         *)
(* The effect of a command on the sampler is NOT modelled here (it is what *)
(* Sampler.tla specifies); the driver only knows the coarse phase so that  *)
(* it generates meaningful histories:                                      *)
(*    "new"  no run() yet;  "started" at least one run() call was made.    *)
(* Commands that the specification declares to be stuttering steps on the  *)
(* essential state (Observe, Posterior, Resume, a Toggle pair) are marked  *)
(* in Stutter; the trace specification checks exactly that on the code.    *)
(***************************************************************************)
EXTENDS Naturals, Sequences, TLC

CONSTANTS MaxLen,        \* length of generated histories
          HasFile,       \* checkpointing on: Resume is available
          Budgets,       \* abstract n_like_max choices of a run() call
          Observers      \* names of read-only accessors

VARIABLES h, phase, runs
vars == <<h, phase, runs>>

\* budgets: "zero" = current count (no batch may start), "one" = current + 1 (exactly one batch),
\* "bm1" = current + NBatch - 1 (one batch), "bp1" = current + NBatch + 1 (two batches),
\* "b5" = five batches, "b15" = fifteen batches (typically stops in the middle of the exploration phase,
\* after the first bound insertions), "inf" = run to convergence (small n_eff target)
Cmd(name, arg) == [op |-> name, arg |-> arg]

Init == h = <<>> /\ phase = "new" /\ runs = 0

\* targets: nShell in {1, 6, 25}; nEff "small" (met shortly after exploration ends: the call returns True in
\* the middle of the sampling phase and a later call with larger targets continues) or "large"
Run(b, ns, ne, d, t0) ==
  /\ h' = Append(h, Cmd("run", [budget |-> b, nShell |-> ns, nEff |-> ne, discard |-> d, timeout0 |-> t0]))
  /\ phase' = "started" /\ runs' = runs + 1
Toggle(v) == /\ phase = "started"
             /\ h' = Append(h, Cmd("toggle", v)) /\ UNCHANGED <<phase, runs>>
Observe(a) == /\ h' = Append(h, Cmd("observe", a)) /\ UNCHANGED <<phase, runs>>
Posterior == /\ phase = "started"
             /\ h' = Append(h, Cmd("posterior", "")) /\ UNCHANGED <<phase, runs>>
Resume == /\ HasFile /\ phase = "started"
          /\ h' = Append(h, Cmd("resume", "")) /\ UNCHANGED <<phase, runs>>

Next == /\ Len(h) < MaxLen
        /\ \/ \E b \in Budgets, ns \in {1, 6, 25}, ne \in {"small", "large"}, d \in BOOLEAN : Run(b, ns, ne, d, FALSE)
           \/ Run("inf", 1, "large", FALSE, TRUE)        \* timeout = 0: returns without starting a batch
           \/ \E v \in {"T", "F", "bad"} : Toggle(v)
           \/ \E a \in Observers : Observe(a)
           \/ Posterior
           \/ Resume
Spec == Init /\ [][Next]_vars

Stutter == {"observe", "posterior", "resume"}

\* every complete history is printed once (the driver parses these lines)
Emit == (Len(h) = MaxLen) => PrintT(<<"@@H", h>>)
\* histories worth replaying: at least one run, and not ending in a pure observer
Useful == runs >= 1
=============================================================================
