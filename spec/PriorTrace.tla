----------------------------- MODULE PriorTrace -----------------------------
(***************************************************************************)
(* C15, code -> spec.  The replayer explores the declaration graph of the  *)
(* real nautilus.Prior breadth-first: from every reachable prior (sequence *)
(* of accepted declarations up to a length) it tries EVERY declaration of  *)
(* the alphabet.  Each edge is logged as  Restore(pre) , Add(key, dist)    *)
(* with the outcome (accepted / exception class), the projected prior      *)
(* afterwards and what dimensionality(), unit_to_physical() and            *)
(* unit_to_dictionary() returned, decoded into (distribution tag, unit     *)
(* coordinate) pairs.  Validated against Prior.tla.                        *)
(***************************************************************************)
EXTENDS Prior, Json, IOUtils

Log == JsonDeserialize(IOEnv.TRACE_FILE)
VARIABLE l
DeclOf(d) == [i \in 1..Len(d) |-> [key |-> d[i].key, kind |-> d[i].kind, target |-> d[i].target, tag |-> d[i].tag]]
KeyArg(e) == IF e.kk = "str" THEN [k |-> "str", s |-> e.ks] ELSE [k |-> e.kk]
DistArg(e) == IF e.dd = "link" THEN [d |-> "link", to |-> e.dto]
              ELSE IF e.dd = "bad" THEN [d |-> "bad"] ELSE [d |-> e.dd, tag |-> e.dtag]
F(name, ok) == IF ok THEN {} ELSE {name}

\* observations of the transforms on the prior bound to the PRIMED variable
ObsFails(o) ==
     F("PR_Aligned", o.aligned)
  \cup F("PR_Dim", o.dim = Dim')
  \cup F("PR_Phys", Len(o.phys) = Dim' /\ \A c \in 1..Dim' : o.phys[c].tag = Phys'[c].tag /\ o.phys[c].coord = Phys'[c].coord)
  \* (a prior without any free parameter cannot be evaluated: the dictionary clauses need Dim >= 1)
  \cup F("PR_DictKeys", Dim' = 0 \/ ({o.dict[i].key : i \in DOMAIN o.dict} = DeclKeys' /\ Len(o.dict) = Cardinality(DeclKeys')))

  \cup F("PR_Dict", \A i \in DOMAIN o.dict : o.dict[i].key \in DeclKeys' =>
                        LET v == Dict'[o.dict[i].key] IN
                        o.dict[i].kind = v.kind /\ o.dict[i].tag = v.tag /\ o.dict[i].coord = v.coord)
  \cup F("PR_Shapes", o.shapesOK) \cup F("PR_Monotone", o.monotone)

ActionFails(r) ==
  LET e == r.event IN
  CASE e.name = "Restore" -> {}
    [] e.name = "Add" ->
         LET ka == KeyArg(e)  da == DistArg(e) IN
         IF e.outcome = "ok"
         THEN F("PR_AcceptedMalformed", WellFormedArgs(ka, da)) \cup
              (IF WellFormedArgs(ka, da) THEN F("PR_AddOK", AddOK(ka, da)) ELSE F("PR_RejectLeavesUnchanged", decl' = decl))
         ELSE F("PR_RejectedWellFormed", ~WellFormedArgs(ka, da))
              \cup F("PR_ExceptionClass", WellFormedArgs(ka, da) \/ e.outcome \in Reasons(ka, da))
              \cup F("PR_RejectLeavesUnchanged", decl' = decl)
    [] OTHER -> {"NoSuchAction"}
InvFails == F("KeysUnique", KeysUnique') \cup F("LinksResolved", LinksResolved')

TInit == l = 1 /\ decl = DeclOf(Log[1].decl)
TNext == /\ l < Len(Log) /\ l' = l + 1 /\ decl' = DeclOf(Log[l + 1].decl)
         /\ LET f == ActionFails(Log[l + 1]) \cup InvFails \cup
                     (IF Log[l + 1].obs.aligned /\ KeysUnique' /\ LinksResolved' THEN ObsFails(Log[l + 1].obs)
                      ELSE F("PR_Aligned", Log[l + 1].obs.aligned))
            IN f = {} \/ PrintT(<<"@@F", l + 1, f>>)
TSpec == TInit /\ [][TNext]_<<vars, l>>
Done == /\ PrintT(<<"@@DONE", TLCGet("stats").diameter, Len(Log)>>)
        /\ TLCGet("stats").diameter = Len(Log)
=============================================================================
