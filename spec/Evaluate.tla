------------------------------ MODULE Evaluate ------------------------------
(***************************************************************************)
(* One likelihood batch: Sampler.evaluate_likelihood (sampler.py:829-897)  *)
(* through NautilusPool.map (pool.py:65-84).                               *)
(*   Copy      the batch is copied before the prior transform sees it      *)
(*   Submit    tasks enter the pool queue in batch order                   *)
(*   Start(w)  an idle worker takes the next queued task                   *)
(*   Finish(w) a busy worker completes its task (ANY interleaving)         *)
(*   Gather    results are collected BY SUBMISSION INDEX                   *)
(*   Count     n_like grows by the batch length                            *)
(* Invariant InOrder: output position k carries the result of input k,     *)
(* whatever the completion order.  Rule "unordered" (gather in completion  *)
(* order) is the negative variant.                                         *)
(***************************************************************************)
EXTENDS Naturals, Sequences, FiniteSets, TLC

CONSTANTS NTasks, NWorkers, Rule      \* Rule \in {"bySubmission", "unordered"}

VARIABLES queue,     \* indices of tasks not yet started, in submission order
          busy,      \* worker -> task index or 0
          done,      \* completion order so far (sequence of task indices)
          res,       \* task index -> result (0 = none); result of task k is k (pure function of the input)
          out,       \* gathered output sequence
          nlike, pc, callerBatch
vars == <<queue, busy, done, res, out, nlike, pc, callerBatch>>
Workers == 1..NWorkers
Batch == [k \in 1..NTasks |-> k]                \* the caller's array: row k holds input id k

Init == /\ queue = <<>> /\ busy = [w \in Workers |-> 0] /\ done = <<>> /\ res = [k \in 1..NTasks |-> 0]
        /\ out = <<>> /\ nlike = 0 /\ pc = "copy" /\ callerBatch = Batch
\* the prior may transform its argument in place: it is handed a COPY, the caller's rows stay intact
Copy == pc = "copy" /\ pc' = "submit" /\ UNCHANGED <<queue, busy, done, res, out, nlike, callerBatch>>
Submit == /\ pc = "submit" /\ queue' = Batch /\ pc' = "run"
          /\ UNCHANGED <<busy, done, res, out, nlike, callerBatch>>
Start(w) == /\ pc = "run" /\ busy[w] = 0 /\ queue # <<>>
            /\ busy' = [busy EXCEPT ![w] = Head(queue)] /\ queue' = Tail(queue)
            /\ UNCHANGED <<done, res, out, nlike, pc, callerBatch>>
Finish(w) == /\ pc = "run" /\ busy[w] # 0
             /\ res' = [res EXCEPT ![busy[w]] = busy[w]] /\ done' = Append(done, busy[w])
             /\ busy' = [busy EXCEPT ![w] = 0]
             /\ UNCHANGED <<queue, out, nlike, pc, callerBatch>>
Gather == /\ pc = "run" /\ queue = <<>> /\ \A w \in Workers : busy[w] = 0 /\ Len(done) = NTasks
          /\ out' = IF Rule = "bySubmission" THEN [k \in 1..NTasks |-> res[k]] ELSE done
          /\ pc' = "count" /\ UNCHANGED <<queue, busy, done, res, nlike, callerBatch>>
Count == /\ pc = "count" /\ nlike' = nlike + Len(out) /\ pc' = "done"
         /\ UNCHANGED <<queue, busy, done, res, out, callerBatch>>
Next == Copy \/ Submit \/ Gather \/ Count \/ \E w \in Workers : Start(w) \/ Finish(w)
Spec == Init /\ [][Next]_vars

InOrder == pc \in {"count", "done"} => \A k \in 1..NTasks : out[k] = k
RowPerPoint == pc \in {"count", "done"} => Len(out) = NTasks
CountExact == pc = "done" => nlike = NTasks
NoLeak == callerBatch = Batch
\* every complete completion order is printed once (used to script the pool of the real code)
EmitOrders == (pc = "done") => PrintT(<<"@@O", done>>)
=============================================================================
