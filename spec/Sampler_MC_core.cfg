SPECIFICATION SpecCore
CONSTANTS
  NLive = 2
  NBatch = 2
  NUpdate = 1
  NLikeNewBound = 4
  NPointsMin = 1
  Levels = {1, 2}
  MaxBounds = 3
  MaxPts = 6
  MaxRej = 1
  Unlimited <- MinusOne
CONSTRAINT MCConstraint
INVARIANT Aligned
INVARIANT ShellPartition
INVARIANT InCube
INVARIANT NoDup
INVARIANT TqDisjoint
INVARIANT TriplesFaithful
INVARIANT CountLeProposals
INVARIANT ExpSplitSane
INVARIANT NLikeExact
INVARIANT NonEmptyAfterExploration
PROPERTY ExploredStable
PROPERTY FrozenBounds
PROPERTY AppendOnly
PROPERTY ExpSplitFrozen
PROPERTY EvalImmutable
PROPERTY NLikeMonotone
CHECK_DEADLOCK FALSE
