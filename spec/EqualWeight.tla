---------------------------- MODULE EqualWeight ----------------------------
(***************************************************************************)
(* posterior(equal_weight=True, equal_weight_boost=b)  (sampler.py:609-618)*)
(* Each weighted row k with relative weight r_k = w_k / max(w) * b is      *)
(* repeated floor(r_k) + [u_k < frac(r_k)] times, u_k the k-th draw of ONE *)
(* call random(n) of the sampler's generator; rows keep their order and    *)
(* their (likelihood, blob); all returned weights are equal.               *)
(* Reals are scaled: frac and u in units of 1/G.                           *)
(***************************************************************************)
EXTENDS Integers, Sequences, FiniteSets, TLC

CONSTANTS G,        \* resolution of frac(r) and of the uniform draw
          MaxFloor, MaxRows

VARIABLES rows,     \* input: sequence of [id, fl, fr]   (fl = floor(r), fr = frac(r) in units 1/G)
          us,       \* the draws, one per row, in units 1/G
          out       \* output: sequence of ids
vars == <<rows, us, out>>

Mult(fl, fr, u) == fl + (IF u < fr THEN 1 ELSE 0)
RECURSIVE Rep(_, _)
Rep(id, n) == IF n = 0 THEN <<>> ELSE <<id>> \o Rep(id, n - 1)
RECURSIVE Expand(_, _, _)
Expand(r, u, k) == IF k > Len(r) THEN <<>> ELSE Rep(r[k].id, Mult(r[k].fl, r[k].fr, u[k])) \o Expand(r, u, k + 1)
Resample(r, u) == Expand(r, u, 1)

Init == /\ rows \in UNION {[1..n -> [id : {0}, fl : 0..MaxFloor, fr : 0..(G - 1)]] : n \in 1..MaxRows}
        /\ us \in [1..Len(rows) -> 0..(G - 1)]
        /\ out = <<>>
Ids(r) == [k \in DOMAIN r |-> [r[k] EXCEPT !.id = k]]
Next == out = <<>> /\ out' = Resample(Ids(rows), us) /\ UNCHANGED <<rows, us>>
Spec == Init /\ [][Next]_vars

Count(s, id) == Cardinality({k \in DOMAIN s : s[k] = id})
\* each row appears floor(r) or floor(r)+1 times ...
FloorOrCeil == out # <<>> => \A k \in DOMAIN rows : Count(out, k) \in {rows[k].fl, rows[k].fl + 1}
\* ... in the original order ...
OrderKept == \A i, j \in DOMAIN out : i < j => out[i] <= out[j]
\* ... never repeated when every relative weight is at most one (boost <= 1)
NoRepeatSmall == (\A k \in DOMAIN rows : rows[k].fl = 0) => \A k \in DOMAIN rows : Count(out, k) <= 1
\* expectation exactly r: over the G equally likely draws, the number that add one copy is frac(r) * G
ExpectationExact == \A k \in DOMAIN rows : Cardinality({u \in 0..(G - 1) : Mult(rows[k].fl, rows[k].fr, u) = rows[k].fl + 1}) = rows[k].fr
\* negative variant: rounding up always (ceil)
CeilMult(fl, fr, u) == fl + (IF fr > 0 THEN 1 ELSE 0)
CeilExpectation == \A k \in DOMAIN rows : Cardinality({u \in 0..(G - 1) : CeilMult(rows[k].fl, rows[k].fr, u) = rows[k].fl + 1}) = rows[k].fr
=============================================================================
