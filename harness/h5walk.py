"""Logical content of an HDF5 file: every group, dataset (dtype, shape, bytes) and attribute."""
import hashlib
import numpy as np


def content(path):
    import h5py
    items = []

    def attrs(obj, name):
        for k in sorted(obj.attrs.keys()):
            v = obj.attrs[k]
            a = np.asarray(v)
            items.append(('A', name, k, str(a.dtype), a.shape, a.tobytes() if a.dtype != object else repr(v).encode()))

    with h5py.File(path, 'r') as f:
        attrs(f, '/')

        def visit(name, obj):
            attrs(obj, name)
            if isinstance(obj, h5py.Dataset):
                a = obj[()]
                a = np.asarray(a)
                items.append(('D', name, str(a.dtype), a.shape, a.tobytes()))
            else:
                items.append(('G', name))
        f.visititems(visit)
    return items


def content_digest(path):
    h = hashlib.sha256()
    for it in content(path):
        h.update(repr(it[:-1]).encode())
        last = it[-1]
        h.update(last if isinstance(last, bytes) else repr(last).encode())
    return h.hexdigest()
