"""Replay operation trees on real bound objects and project them to the state of spec/Bounds.tla.

Used by C13 (union well-formedness under any split/trim/sample order), C07 (soundness observations)
and C09 (write/read round trip at tree nodes).
"""
import copy
import json
import os
import numpy as np

from . import common, tlc

from nautilus.bounds import (UnitCube, Ellipsoid, UnitCubeEllipsoidMixture, Union, NeuralBound,  # noqa: E402
                             NautilusBound)
from nautilus.bounds.periodic import PhaseShift  # noqa: E402

POINTSETS = ['clusters2', 'blob', 'elongated', 'banana', 'corner', 'three', 'faces']
EXTRA_POINTSETS = ['onface', 'compact', 'many', 'topup']      # targeted families (not in the generic rotation)


def pointset(kind, n_dim, n, seed):
    g = np.random.default_rng(5000 + seed)
    if kind == 'clusters2':
        a = g.normal(0.25, 0.02, (int(0.4 * n), n_dim))
        b = g.normal(0.75, 0.02, (int(0.4 * n), n_dim))
        c = g.normal(0.5, 0.12, (n - len(a) - len(b), n_dim))
        p = np.vstack([a, b, c])
    elif kind == 'blob':
        p = g.normal(0.5, 0.08, (n, n_dim))
    elif kind == 'elongated':
        p = g.normal(0.5, 0.02, (n, n_dim))
        p[:, 0] = 0.5 + 0.25 * g.normal(size=n)
        p[:, 1] = p[:, 1] + 0.6 * (p[:, 0] - 0.5)
    elif kind == 'banana':
        t = g.uniform(-1, 1, n)
        p = g.normal(0.5, 0.015, (n, n_dim))
        p[:, 0] = 0.5 + 0.35 * t
        p[:, 1] = 0.3 + 0.4 * t ** 2 + 0.02 * g.normal(size=n)
    elif kind == 'corner':
        p = np.abs(g.normal(0.0, 0.08, (n, n_dim)))
    elif kind == 'three':
        k = n // 3
        p = np.vstack([g.normal(0.2, 0.03, (k, n_dim)), g.normal(0.5, 0.03, (k, n_dim)),
                       g.normal(0.8, 0.03, (n - 2 * k, n_dim))])
    elif kind == 'faces':
        p = g.uniform(0, 1, (n, n_dim))
        p[:, 0] = 1 - np.abs(g.normal(0, 0.03, n))
    elif kind == 'onface':
        # uniform in most coordinates (those become cube dimensions of a mixture), some points EXACTLY on the face x_last = 0
        p = g.uniform(0, 1, (n, n_dim))
        p[:, 0] = np.clip(0.5 + 0.02 * g.normal(size=n), 0.3, 0.7)
        p[: max(3, n // 10), -1] = 0.0
        return np.ascontiguousarray(p)
    elif kind == 'compact':
        # a broad cluster next to an extremely compact one (volume ratio far below float epsilon)
        # the broad cluster is small in number (it is blocked after the first split), so the next split goes to
        # the compact one
        k = 7
        p = np.vstack([g.normal(0.35, 0.08, (k, n_dim)), 0.8 + 1e-12 * g.normal(size=(n - k, n_dim))])
    elif kind == 'topup':
        # n points with n in [2*npm, 3*npm) for the n_points_min the jobs use with this family (n = 11 or 13, npm = 4 or 5):
        # a tight cluster plus two far outliers, so that the mixture fit assigns fewer than npm points to one
        # component and the top-up has to move points
        p = np.vstack([g.normal(0.4, 0.03, (n - 2, n_dim)), g.normal(0.85, 0.005, (2, n_dim))])
    elif kind == 'many':
        # many well separated small clusters: unions with more than ten members
        m = 14
        cen = g.uniform(0.08, 0.92, (m, n_dim))
        p = np.vstack([c + 0.004 * g.normal(size=(n // m + 1, n_dim)) for c in cen])[:n]
    else:
        raise ValueError(kind)
    # keep everything strictly inside the unit cube
    p = np.clip(p, 1e-6, 1 - 1e-6)
    return np.ascontiguousarray(p)


def project_union(u, idx, v0):
    """Union -> state of Bounds.tla (robust against misaligned lists: that is what is being checked)."""
    n = min(len(u.bounds), len(u.points_bounds))
    blk = list(np.atleast_1d(u.block)) if hasattr(u, 'block') else []
    recs = []
    for k in range(n):
        pts = sorted(idx.get(np.ascontiguousarray(p).tobytes(), 0) for p in u.points_bounds[k])
        vol = int(max(0, min(2 * 10 ** 8, round(1e6 * np.exp(u.bounds[k].log_v - v0)))))
        recs.append(dict(pts=pts, vol=vol, block=bool(blk[k]) if k < len(blk) else False))
    present = set(i for r in recs for i in r['pts'])
    return dict(recs=recs, lens=[len(u.bounds), len(u.points_bounds), len(np.atleast_1d(u.log_v_all)), len(blk)],
                trimmed=sorted(set(idx.values()) - present), cache=int(len(u.points)), nsamp=int(u.n_sample),
                nrej=int(u.n_reject))


def observe_union(u, unit):
    allp = np.vstack(u.points_bounds) if len(u.points_bounds) else np.zeros((0, u.n_dim))
    try:
        enc = bool(np.all(u.contains(allp))) if len(allp) else True
    except Exception:
        enc = False
    # the volume record of ellipsoid k is the volume of ellipsoid k (log_v_all is a parallel list)
    lva = np.atleast_1d(u.log_v_all)
    vols = bool(len(lva) == len(u.bounds) and all(abs(float(lva[k]) - float(u.bounds[k].log_v)) < 1e-9
                                                  for k in range(len(u.bounds))))
    return dict(enclosed=enc, volsAligned=vols)


OPS = ['SplitT', 'SplitF', 'Trim', 'Sample', 'LogV']


def _split_with_shrink(u, allow):
    """split() plus an observation made in log space (integer volume units cannot resolve tiny ellipsoids):
    the two new ellipsoids together are not larger than the one they replace."""
    from scipy.special import logsumexp
    pre = [(set(np.ascontiguousarray(x).tobytes() for x in pts), float(b.log_v))
           for pts, b in zip(u.points_bounds, u.bounds)]
    ret = bool(u.split(allow_overlap=allow))
    ok = True
    if ret and len(u.bounds) >= 2:
        a = set(np.ascontiguousarray(x).tobytes() for x in u.points_bounds[-2])
        b = set(np.ascontiguousarray(x).tobytes() for x in u.points_bounds[-1])
        par = [lv for pts, lv in pre if pts == (a | b)]
        if par:
            ok = bool(logsumexp([float(u.bounds[-2].log_v), float(u.bounds[-1].log_v)]) <= par[0] + 1e-9)
    return dict(name='Split', allow=bool(allow), ret=ret, shrinkOK=ok)


def apply_op(u, op, unit):
    """Returns the event record (the union is modified in place)."""
    try:
        if op == 'SplitT':
            return _split_with_shrink(u, True)
        if op == 'SplitF':
            return _split_with_shrink(u, False)
        if op == 'Trim':
            return dict(name='Trim', ret=bool(u.trim(threshold=5.0)))
        if op == 'TrimD':
            return dict(name='Trim', ret=bool(u.trim()))
        if op == 'Sample':
            s = u.sample(37)
            inside = bool(np.all(u.contains(s))) if len(s) else True
            if unit and len(s):
                inside = inside and bool(np.all((s >= 0) & (s < 1)))
            return dict(name='Sample', n=37, got=int(len(s)), inside=inside)
        if op == 'LogV':
            u.log_v
            return dict(name='LogV')
    except Exception as e:
        return dict(name='Raise', op=op, exc=type(e).__name__, msg=str(e)[:200])
    raise ValueError(op)


def walk_union(job):
    """DFS over all operation sequences up to `depth` on one union.  Returns the log (list of records)."""
    with common.cpu_limit(1500):
        return _walk_union(job)


def _walk_union(job):
    kind, n_dim, n, seed, cls_name, unit, npm, depth, ops, roundtrip = job
    pts = pointset(kind, n_dim, n, seed)
    idx = {p.tobytes(): i + 1 for i, p in enumerate(pts)}
    cls = Ellipsoid if cls_name == 'Ellipsoid' else UnitCubeEllipsoidMixture
    rng = np.random.default_rng(7000 + seed)
    u0 = Union.compute(pts, n_points_min=npm, bound_class=cls, unit=unit, rng=rng)
    v0 = u0.bounds[0].log_v
    log = []
    edges = [0]

    def rec(event, u, node, extra=None):
        r = dict(event=event, state=project_union(u, idx, v0), obs=observe_union(u, unit), node=node,
                 npts=len(pts))
        if extra:
            r.update(extra)
        log.append(r)

    def visit(u, path):
        node = '/'.join(path) or '-'
        if len(path) >= depth:
            if roundtrip:
                rt = roundtrip_check(u, pts)
                rec(dict(name='Restore'), u, node)
                rec(dict(name='RoundTrip', **rt), u, node)
            return
        for op in ops:
            if op == 'SplitF' and cls_name != 'Ellipsoid':
                continue
            c = copy.deepcopy(u)
            rec(dict(name='Restore'), u, node)
            ev = apply_op(c, op, unit)
            edges[0] += 1
            if ev['name'] == 'Raise':
                log.append(dict(event=ev, state=log[-1]['state'], obs=log[-1]['obs'], node=node + '/' + op,
                                npts=len(pts)))
                continue
            rec(ev, c, node + '/' + op)
            visit(c, path + [op])
    rec(dict(name='Restore'), u0, '-')
    visit(u0, [])
    return dict(job=list(job), log=log, edges=edges[0])


# ---------------------------------------------------------------------------------- round trips (C09)
def clone_rng(rng):
    g = np.random.default_rng()
    g.bit_generator.state = copy.deepcopy(rng.bit_generator.state)
    return g


def _h5():
    import h5py
    import uuid
    return h5py.File('rt_%s.h5' % uuid.uuid4().hex, 'w', driver='core', backing_store=False)


def probes(b, pts, n_dim, seed=0):
    g = np.random.default_rng(seed)
    a = g.uniform(0, 1, (1500, n_dim))
    near = pts[g.integers(0, len(pts), 1500)] + g.normal(0, 0.05, (1500, n_dim))
    out = g.uniform(-0.3, 1.3, (500, n_dim))
    return np.vstack([a, near, out, pts])


def find_rng(b):
    for o in (b, getattr(b, 'cube', None), getattr(b, 'ellipsoid', None), getattr(b, 'outer_bound', None)):
        if o is not None and hasattr(o, 'rng'):
            return o.rng
    return None


def same_behaviour(a, b, pts, n_dim, n_stream=1400):
    """contains identical on probes, volume identical, future sample streams identical (a and b hold
    generators in the same state)."""
    res = dict(containsSame=True, volSame=True, streamSame=True, raised='')
    try:
        P = probes(a, pts, n_dim)
        res['containsSame'] = bool(np.array_equal(np.asarray(a.contains(P)), np.asarray(b.contains(P))))
        if not hasattr(a, 'sample'):
            return res
        va, vb = a.log_v, b.log_v
        res['volSame'] = bool(va == vb or (np.isnan(va) and np.isnan(vb)))
        for k in range(2):
            sa, sb = a.sample(n_stream // 2), b.sample(n_stream // 2)
            if not np.array_equal(sa, sb):
                res['streamSame'] = False
        va, vb = a.log_v, b.log_v
        res['volSame'] = res['volSame'] and bool(va == vb)
    except Exception as e:
        res['raised'] = '%s: %s' % (type(e).__name__, str(e)[:150])
    return res


def roundtrip_check(b, pts, update=True):
    """write -> read (and write -> sample -> update -> read) on deep copies of b."""
    n_dim = pts.shape[1]
    out = dict(containsSame=True, volSame=True, streamSame=True, raised='', updContainsSame=True,
               updVolSame=True, updStreamSame=True)
    cls = type(b)
    try:
        w = copy.deepcopy(b)
        f = _h5()
        g = f.create_group('b')
        w.write(g)
        wr = find_rng(w)
        r = cls.read(g, rng=clone_rng(wr)) if wr is not None else cls.read(g)
        out.update(same_behaviour(w, r, pts, n_dim))
        f.close()
        if update and hasattr(b, 'update') and not out['raised']:
            w = copy.deepcopy(b)
            f = _h5()
            g = f.create_group('b')
            w.write(g)
            w.sample(700)
            w.sample(900)
            w.update(g)
            r = cls.read(g, rng=clone_rng(find_rng(w)))
            u = same_behaviour(w, r, pts, n_dim)
            out.update(updContainsSame=u['containsSame'], updVolSame=u['volSame'], updStreamSame=u['streamSame'])
            if u['raised']:
                out['raised'] = 'update: ' + u['raised']
            f.close()
            # update() in the states an incremental write can meet: cache drained exactly, and after reset()
            for how in ('drain', 'reset'):
                if out['raised']:
                    break
                w = copy.deepcopy(b)
                f = _h5()
                g = f.create_group('b')
                w.sample(300)
                w.write(g)                      # the group now holds a non-empty proposal cache
                if how == 'drain':
                    if len(w.points):
                        w.sample(len(w.points))
                else:
                    w.reset()
                w.update(g)
                r = cls.read(g, rng=clone_rng(find_rng(w)))
                u = same_behaviour(w, r, pts, n_dim)
                out['updContainsSame'] = out['updContainsSame'] and u['containsSame']
                out['updVolSame'] = out['updVolSame'] and u['volSame']
                out['updStreamSame'] = out['updStreamSame'] and u['streamSame']
                if u['raised']:
                    out['raised'] = 'update after %s: %s' % (how, u['raised'])
                f.close()
    except Exception as e:
        out['raised'] = '%s: %s' % (type(e).__name__, str(e)[:150])
    return out


# ---------------------------------------------------------------------------------- TLC
def validate(log, scratch, tag, npmin):
    if not log:                      # nothing was recorded (e.g. a run that built no bound): nothing to validate
        return [], tlc.TLCResult()
    path = os.path.join(scratch, 'btrace_%s.json' % tag)
    json.dump(log, open(path, 'w'))
    cfg = path + '.cfg'
    tlc.write_cfg(cfg, spec='TSpec', constants=dict(NPmin=npmin, AllPts='<- AllPtsDef', Slack=2, MaxVol=1),
                  invariants=['InitOK'], postcondition='Done')
    res = tlc.run_tlc('BoundsTrace', cfg, workers=1, timeout=900, env=dict(TRACE_FILE=path))
    os.unlink(cfg)
    fails, done = [], None
    for line in res.prints:
        v = tlc.parse_tla(line)
        if v[0] == '@@F':
            fails.append((int(v[1]), sorted(v[2][1]), v[3]))
        elif v[0] == '@@DONE':
            done = (int(v[1]), int(v[2]))
    if done is None or done[0] != done[1] or done[1] != len(log):
        raise tlc.TLCError('BoundsTrace did not consume the log %s (%s)\n%s' % (tag, done, res.out[-2500:]))
    os.unlink(path)
    return fails, res


# ---------------------------------------------------------------------------------- other bound classes (C07, C09)
def wrapped_points(n_dim, n, seed, dims):
    g = np.random.default_rng(6000 + seed)
    p = g.normal(0.5, 0.06, (n, n_dim))
    for d in dims:
        p[:, d] = (g.normal(0.0, 0.04, n)) % 1.0        # a mode sitting on the periodic boundary
    return np.ascontiguousarray(np.clip(p, 0.0, 1 - 1e-9))


def make_object(spec):
    """spec: dict(cls, kind, n_dim, n, seed, enlarge, periodic, n_networks, pool, unit)."""
    cls = spec['cls']
    n_dim, n, seed = spec['n_dim'], spec['n'], spec['seed']
    rng = np.random.default_rng(8000 + seed)
    enl = spec.get('enlarge', 1.1)
    if spec.get('periodic'):
        pts = wrapped_points(n_dim, n, seed, spec['periodic'])
    else:
        pts = pointset(spec['kind'], n_dim, n, seed)
    if cls == 'UnitCube':
        return UnitCube.compute(n_dim, rng=rng), pts, None
    if cls == 'Ellipsoid':
        return Ellipsoid.compute(pts, enlarge_per_dim=enl, rng=rng), pts, None
    if cls == 'Mixture':
        return UnitCubeEllipsoidMixture.compute(pts, enlarge_per_dim=enl, rng=rng), pts, None
    c = np.mean(pts, axis=0) if not spec.get('periodic') else None
    if c is None:
        d = pts - 0.5
        for k in spec['periodic']:
            d[:, k] = np.minimum(pts[:, k], 1 - pts[:, k])
        log_l = -np.sum(d ** 2, axis=1)
    else:
        log_l = -np.sum((pts - c) ** 2, axis=1)
    log_l_min = np.sort(log_l)[len(log_l) // 3]
    nnkw = dict(hidden_layer_sizes=(8, 4), max_iter=80)
    nnkw.update(spec.get('nnkw', {}))         # non-default network options (must survive a write/read round trip)
    if cls == 'NeuralBound':
        return NeuralBound.compute(pts, log_l, log_l_min, enlarge_per_dim=enl, n_networks=spec.get('n_networks', 1),
                                   neural_network_kwargs=nnkw, rng=rng), pts[log_l >= log_l_min], None
    if cls == 'NautilusBound':
        from nautilus.pool import NautilusPool
        pool = NautilusPool(spec['pool']) if spec.get('pool') else None
        per = np.array(spec['periodic'], dtype=int) if spec.get('periodic') else None
        b = NautilusBound.compute(pts, log_l, log_l_min, np.log(0.05), enlarge_per_dim=enl,
                                  n_points_min=spec.get('npm', n_dim + 3), split_threshold=spec.get('split_threshold', 1),
                                  periodic=per, n_networks=spec.get('n_networks', 0), neural_network_kwargs=nnkw,
                                  pool=pool, rng=rng)
        return b, pts[log_l >= log_l_min], pool
    raise ValueError(cls)


def inside_outer(b, pts, n_dim, seed=1):
    """neural / nautilus bound: contains(x) implies the outer ellipsoidal bound contains x."""
    P = probes(b, pts, n_dim, seed)
    c = np.asarray(b.contains(P))
    if isinstance(b, NeuralBound):
        o = np.asarray(b.outer_bound.contains(P))
    elif isinstance(b, NautilusBound):
        Q = b.shift.transform(P) if b.shift is not None else P
        o = np.asarray(b.outer_bound.contains(Q))
        if len(b.neural_bounds):
            o = o & np.any([nb.outer_bound.contains(Q) for nb in b.neural_bounds], axis=0)
    else:
        return True
    return bool(np.all(o[c]))


def project_object(b, idx, v0):
    if isinstance(b, NautilusBound):
        st = project_union(b.outer_bound, idx, v0)
        st.update(cache=int(len(b.points)), nsamp=int(b.n_sample), nrej=int(b.n_reject))
        st['trimmed'] = sorted(set(idx.values()) - set(i for r in st['recs'] for i in r['pts']))
        return st
    return dict(recs=[dict(pts=sorted(idx.values()), vol=1000000, block=True)], lens=[1, 1, 1, 1], trimmed=[],
                cache=0, nsamp=0, nrej=0)


def walk_object(spec):
    """Compute one bound object, then sample/reset/round-trip sequences with observations."""
    with common.cpu_limit(400):
        return _walk_object(spec)


def _walk_object(spec):
    b, cpts, pool = make_object(spec)
    n_dim = spec['n_dim']
    idx = {np.ascontiguousarray(p).tobytes(): i + 1 for i, p in enumerate(cpts)}
    v0 = 0.0
    if isinstance(b, NautilusBound):
        v0 = b.outer_bound.bounds[0].log_v
        idx = {np.ascontiguousarray(p).tobytes(): i + 1 for i, p in
               enumerate(np.vstack(b.outer_bound.points_bounds))}
    unit = isinstance(b, (UnitCube, NautilusBound))     # classes restricted to the unit cube by construction
    log = []

    def enclosed():
        if isinstance(b, (Ellipsoid, UnitCubeEllipsoidMixture)):
            return bool(np.all(b.contains(cpts)))
        if isinstance(b, NautilusBound):
            allp = np.vstack(b.outer_bound.points_bounds)
            return bool(np.all(b.outer_bound.contains(allp)))
        return True

    def rec(ev, node):
        log.append(dict(event=ev, state=project_object(b, idx, v0), obs=dict(enclosed=enclosed(), volsAligned=True), node=node,
                        npts=len(idx)))
    try:
        rec(dict(name='Restore'), '-')
        log[-1]['event'] = dict(name='Restore')
        rec(dict(name='Compute', insideOuter=inside_outer(b, cpts, n_dim)), 'compute')
        seq = spec.get('ops', ['Sample', 'Sample', 'RoundTrip', 'Sample', 'Reset', 'Sample', 'RoundTrip'])
        for k, op in enumerate(seq):
            node = 'compute/' + '/'.join(seq[:k + 1])
            if op == 'Sample':
                if not hasattr(b, 'sample'):
                    continue
                n = [37, 1500, 250][k % 3]
                kw = dict(pool=pool) if isinstance(b, NautilusBound) and pool is not None else {}
                s = b.sample(n, **kw)
                ins = bool(np.all(b.contains(s)))
                cube = bool(np.all((s >= 0) & (s < 1))) if unit else True
                rec(dict(name='SampleObj', n=n, got=int(len(s)), inside=ins, inCube=cube,
                         insideOuter=inside_outer(b, cpts, n_dim, seed=k)), node)
            elif op == 'Reset':
                if hasattr(b, 'reset'):
                    b.reset(np.random.default_rng(99 + spec['seed']))
                rec(dict(name='Restore'), node)
            elif op == 'RoundTrip':
                rt = roundtrip_check(b, cpts)
                rec(dict(name='RoundTrip', **rt), node)
    except Exception as e:
        import traceback
        log.append(dict(event=dict(name='Raise', op='object', exc=type(e).__name__, msg=str(e)[:200],
                                   tb=traceback.format_exc()[-800:]),
                        state=log[-1]['state'] if log else dict(recs=[], lens=[0, 0, 0, 0], trimmed=[], cache=0, nsamp=0, nrej=0),
                        obs=dict(enclosed=True, volsAligned=True), node='raise', npts=len(idx)))
    finally:
        if pool is not None:
            try:
                pool.pool.terminate()
                pool.pool.join()
            except Exception:
                pass
    return dict(job=spec, log=log, edges=len(log))


def many_members(job):
    """A union split until it has more than ten members, then written and read back (member groups are named
    bound_0 ... bound_12: name order is not index order)."""
    with common.cpu_limit(400):
        return _many_members(job)


def _many_members(job):
    n_dim, n, seed, cls_name, unit = job
    pts = pointset('many', n_dim, n, seed)
    idx = {p.tobytes(): i + 1 for i, p in enumerate(pts)}
    cls = Ellipsoid if cls_name == 'Ellipsoid' else UnitCubeEllipsoidMixture
    u = Union.compute(pts, n_points_min=n_dim + 2, bound_class=cls, unit=unit, rng=np.random.default_rng(seed))
    v0 = u.bounds[0].log_v
    log = []

    def rec(event, node):
        log.append(dict(event=event, state=project_union(u, idx, v0), obs=observe_union(u, unit), node=node, npts=len(pts)))
    rec(dict(name='Restore'), '-')
    k = 0
    while k < 20:
        ev = apply_op(u, 'SplitT', unit)
        k += 1
        if ev['name'] == 'Raise' or not ev.get('ret'):
            rec(ev, 'split%d' % k) if ev['name'] != 'Raise' else log.append(dict(event=ev, state=log[-1]['state'], obs=log[-1]['obs'], node='split%d' % k, npts=len(pts)))
            break
        rec(ev, 'split%d' % k)
    u.sample(500)
    rec(dict(name='Restore'), 'sampled')
    rt = roundtrip_check(u, pts)
    rec(dict(name='RoundTrip', **rt), 'members=%d/RoundTrip' % len(u.bounds))
    return dict(job=dict(cls='Union(%s) with %d members' % (cls_name, len(u.bounds)), kind='many', n_dim=n_dim, npm=n_dim + 2),
                log=log, edges=len(log), members=len(u.bounds))
