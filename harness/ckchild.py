"""Child process of the C06 check: one seeded, checkpointed run.

usage: python -m harness.ckchild <cfg.json> <dir> <mode>
  mode 'ref'  : after every completed checkpoint write, record the logical content of the file
  mode 'kill' : only record progress (the parent kills this process at a chosen system call)
"""
import json
import os
import sys


def main():
    cfg = json.load(open(sys.argv[1]))
    d = sys.argv[2]
    mode = sys.argv[3]
    from harness import common  # noqa
    from harness import ckpt
    from harness.h5walk import content_digest
    from nautilus import Sampler
    # (the directory of the checkpoint need not exist: Sampler.write creates it)
    path = os.path.join(d, cfg.get('relpath', 'ck.h5'))
    prog = open(os.path.join(d, 'progress.log'), 'a', buffering=1)
    snaps = open(os.path.join(d, 'snapshots.jsonl'), 'a', buffering=1) if mode == 'ref' else None
    state = dict(n=0)

    class P(Sampler):
        def _done(self, kind):
            state['n'] += 1
            if snaps is not None:
                import shutil
                shutil.copyfile(path, os.path.join(d, 'snap_%04d.h5' % state['n']))      # pristine copy of this checkpoint
                snaps.write(json.dumps(dict(i=state['n'], kind=kind, n_like=int(self.n_like),
                                            digest=content_digest(path))) + '\n')
            prog.write('%d %s %d\n' % (state['n'], kind, int(self.n_like)))

        def write(self, *a, **k):
            r = super().write(*a, **k)
            self._done('full')
            return r

        def write_shell_update(self, *a, **k):
            r = super().write_shell_update(*a, **k)
            self._done('upd')
            return r

    model = ckpt.model_of(cfg)
    resume = mode == 'resume'
    s = ckpt.make(cfg, model, path, resume=resume, cls=P)
    runkw = dict(cfg.get('runkw') or dict(n_eff=40, discard_exploration=True))
    s.run(n_like_max=cfg.get('n_like_max', 10 ** 9), **runkw)
    prog.write('END %d\n' % int(s.n_like))
    ckpt._close(s)


if __name__ == '__main__':
    main()
