"""Validate logged sampler traces against spec/SamplerTrace.tla and scope the verdict to properties."""
import os
import re

from . import common, tlc

# which listed properties each clause / invariant / step predicate supports (DESIGN 2.5).
# Items mapped to the empty set are conformance detail: a failure is a DIVERGENCE, never a VIOLATION.
TAGS = {
    # state invariants
    'Aligned': {'C02', 'C03'},
    'ShellPartition': {'C01'},
    'AssocConsistent': {'C01'},
    'InCube': {'C01', 'C10'},
    'NoDup': {'C03', 'C05'},
    'TqDisjoint': {'C03'},
    'TriplesFaithful': {'C03'},
    'Misaligned': {'C03'},
    'CountLeProposals': {'C02'},
    'ExpSplitSane': {'C02', 'C12'},
    'StatsFromStored': {'C02', 'C12'},
    'Residuals': {'C02'},
    'StatsFunctional': {'C12', 'C02'},
    'NLikeExact': {'C10'},
    'BudgetRespected': {'C10'},
    'NonEmptyAfterExploration': {'C12'},
    # step predicates
    'ExploredStable': {'C12'},
    'FrozenBounds': {'C12'},
    'AppendOnly': {'C12'},
    'ExpSplitFrozen': {'C12'},
    'EvalImmutable': {'C03'},
    'NLikeMonotone': {'C10'},
    'ReturnIffDone': {'C10'},
    # action clauses
    'Init': set(),
    'FirstBound': set(),
    'AB_Pre': set(), 'ABA_Pre': set(), 'ABR_Threshold': set(), 'ABA_Threshold': set(), 'AB_Counters': set(),
    'ABR_Frame': {'C12'}, 'ABR_Shape': set(), 'ABA_Shape': set(),
    'ABA_Bseq': set(), 'ABA_Sig': set(),
    'ABA_MoveSet': {'C01'},
    'ABA_MoveSeq': {'C03'},
    'ABA_Tq': {'C03'},
    'ABA_Stats': {'C02'},
    'ABA_Frame': set(),
    'AS_Shape': {'C10', 'C03'},
    'AS_Pre': set(),
    'AS_ShellChoice': set(),
    'AS_Budget': {'C10'},
    'AS_Pc': set(),
    'AS_Fresh': {'C01'},
    'AS_Cube': {'C10'},
    'AS_TransferSet': {'C01'},
    'AS_Maximal': set(),
    'AS_ShellSet': {'C01', 'C03'},
    'AS_ShellSeq': {'C03'},
    'AS_Tq': {'C03'},
    'AS_Proposals': {'C02'},
    'AS_Accounted': {'C02'},
    'AS_NBoundReported': set(),
    'AS_Provenance': set(),
    'AS_BatchExact': {'C10'},
    'AS_ArgsFaithful': {'C03'},
    'AS_ArgMax': set(),
    'AS_Points': set(),
    'AS_Count': {'C10'},
    'AS_Iter': set(),
    'AS_Frame': {'C12'},
    'EE_Pre': set(), 'EE_Drop': {'C12', 'C02'}, 'EE_Freeze': {'C12'}, 'EE_Flags': {'C12'},
    'EE_Sig': set(), 'EE_Tq': set(), 'EE_Frame': set(),
    'SD_Pre': set(), 'SD_Only': {'C12'}, 'SD_StoredDigest': {'C12'},
    'RC_Pre': set(), 'RC_Effect': set(), 'RC_Frame': {'C10', 'C12'},
    'RR_Pre': {'C10'}, 'RR_Value': {'C10'}, 'RR_Effect': set(), 'RR_Frame': {'C10'}, 'RR_NEffOracle': {'C02'},
    'OB_Frame': {'C11'}, 'OB_Digest': {'C11'}, 'OB_Occupation': set(),
    'PO_Rows': {'C03', 'C12'}, 'PO_Triples': {'C03'}, 'PO_Points': {'C03'},
    'RS_Frame': {'C05'}, 'RS_Digest': {'C05'}, 'RST_LosesEvaluations': {'C05'}, 'RST_Effect': set(),
    'NoSuchAction': set(),
}


def trace_cfg(path, consts):
    lv = set(range(0, consts['K'] + 1))
    tlc.write_cfg(path, spec='TSpec', constants=dict(
        NLive=consts['NLive'], NBatch=consts['NBatch'], NUpdate=consts['NUpdate'],
        NLikeNewBound=consts['NLikeNewBound'], NPointsMin=consts['NPointsMin'], Levels=lv,
        MaxBounds=100000, MaxPts=10000000, MaxRej=10000000, Unlimited='<- MinusOne'),
        invariants=['InitOK'], postcondition='Done')
    return path


class TraceVerdict:
    def __init__(self):
        self.accepted = False        # TLC consumed the whole log
        self.fails = []              # list of (step, [names])
        self.steps = 0
        self.wall_s = 0.0
        self.error = None
        self.states = 0

    def names(self):
        out = set()
        for _, ns in self.fails:
            out |= set(ns)
        return out

    def for_property(self, prop):
        return [(st, [n for n in ns if prop in TAGS.get(n, set())]) for st, ns in self.fails
                if any(prop in TAGS.get(n, set()) for n in ns)]

    def divergences(self):
        return [(st, [n for n in ns if not TAGS.get(n, set())]) for st, ns in self.fails
                if any(not TAGS.get(n, set()) for n in ns)]


def validate(trace_path, consts, n_events, timeout=600):
    """Run SamplerTrace on one log.  Returns TraceVerdict; raises tlc.TLCError on machinery failure."""
    cfg = trace_path + '.cfg'
    trace_cfg(cfg, consts)
    v = TraceVerdict()
    try:
        res = tlc.run_tlc('SamplerTrace', cfg, workers=1, timeout=timeout, env=dict(TRACE_FILE=trace_path))
    finally:
        try:
            os.unlink(cfg)
        except OSError:
            pass
    v.wall_s = res.wall_s
    v.states = res.states
    done = None
    for line in res.prints:
        try:
            val = tlc.parse_tla(line.strip())
        except Exception:
            continue
        if isinstance(val, list) and val and val[0] == '@@F':
            names = val[2][1] if isinstance(val[2], tuple) else val[2]
            v.fails.append((int(val[1]), sorted(names)))
        elif isinstance(val, list) and val and val[0] == '@@DONE':
            done = (int(val[1]), int(val[2]))
    # PrintT output lines start with << ; our marker is inside: collect them
    v.steps = n_events
    if done is None or done[0] != done[1] or done[1] != n_events:
        if res.timeout:
            raise tlc.TLCError('trace validation timed out: %s' % trace_path)
        if res.violated == 'postcondition' or (done is not None and done[0] != done[1]):
            raise tlc.TLCError('trace not consumed (%s): %s\n%s' % (done, trace_path, res.out[-1500:]))
        raise tlc.TLCError('trace validation did not finish: %s\n%s' % (trace_path, res.out[-2500:]))
    v.accepted = not v.fails
    return v
