"""C08 (partial): the sampling rule is uniform / calibrated (cell model), and the code's rounds are that rule."""
import os

from . import common, tlc

RTAGS = {'RD_VolumeProportional': {'C08'}, 'RD_AcceptRule': {'C08'}, 'RD_Multiplicity': {'C08'}, 'RD_CubeFilter': {'C08'},
         'RD_Counters': {'C08'}, 'RD_LogV': {'C08'}, 'NB_Filter': {'C08'}, 'NB_Counters': {'C08'}, 'NB_LogV': {'C08'},
         'MG_Own': {'C08'}, 'MG_Outer': {'C08'}, 'MG_Cache': {'C08'}, 'EV_ClosedForm': {'C08'},
         'EV_MatrixOfContains': {'C08'},
         'RD_AllocationRandom': {'C08'}, 'RD_AllocationTotal': set(),
         'RD_CacheOrder': set(), 'RD_MemberCounts': set(), 'RD_ProposalCount': set(), 'NoSuchRecord': set()}


def check_c08(prop, tier, seed):
    from . import round_ops as ro
    rep = common.Report(prop, tier, seed)
    scratch = common.scratch('c08_')
    try:
        # (a) the rule is uniform and the volume estimator calibrated: exact rationals over all small covers
        consts = dict(NC=3, NE=3, MaxM=2 if tier == 'quick' else 3)
        for rule, hold in (('code', True), ('noMult', False), ('equalWeights', False)):
            cfg = os.path.join(scratch, 'us_%s.cfg' % rule)
            tlc.write_cfg(cfg, spec='Spec', constants=dict(consts, Rule=rule), invariants=['Uniform', 'VolumeCalibrated'])
            res = tlc.run_tlc('UnionSampling', cfg, workers=common.NCPU, timeout=1800)
            rep.add_tlc(res, 'UnionSampling.tla/' + rule)
            if hold and not res.ok:
                rep.violation('spec:UnionSampling:%s' % res.violated, 'UnionSampling.tla (rule of the code) violates %s' % res.violated,
                              dict(out=res.out[-2000:]))
            if not hold and res.ok:
                raise tlc.TLCError('negative rule %s was not refuted' % rule)
        # (b) the code's rounds are instances of that rule
        s = seed
        specs = [dict(kind='clusters2', n_dim=2, n=94, seed=s + 1, cls='Ellipsoid', n_split=3, roundtrip=True),
                 dict(kind='three', n_dim=3, n=120, seed=s + 2, cls='UnitCubeEllipsoidMixture', n_split=2),
                 dict(kind='corner', n_dim=2, n=80, seed=s + 3, cls='Ellipsoid', n_split=2),
                 dict(kind='blob', n_dim=2, n=160, seed=s + 11, cls='Ellipsoid', n_split=5, npm=4, rounds=5),     # triple overlaps
                 dict(kind='banana', n_dim=2, n=120, seed=s + 4, cls='Ellipsoid', n_split=4, unit=False),
                 dict(kind='blob', n_dim=3, n=100, seed=s + 5, cls='Ellipsoid', n_split=3, roundtrip=True),
                 dict(kind='faces', n_dim=3, n=90, seed=s + 6, cls='UnitCubeEllipsoidMixture', n_split=3),
                 dict(kind='elongated', n_dim=4, n=120, seed=s + 7, cls='Ellipsoid', n_split=3),
                 dict(kind='corner', n_dim=2, n=200, seed=s + 8, cls='NautilusBound', n_networks=1, pool=2),
                 dict(kind='clusters2', n_dim=3, n=240, seed=s + 9, cls='NautilusBound', n_networks=0, periodic=[0]),
                 dict(kind='faces', n_dim=3, n=240, seed=s + 10, cls='NautilusBound', n_networks=2, pool=3),
                 # without networks the neural bounds are bare ellipsoids while the outer union is built differently
                 dict(kind='three', n_dim=2, n=240, seed=s + 12, cls='NautilusBound', n_networks=0),
                 dict(kind='banana', n_dim=2, n=300, seed=s + 13, cls='NautilusBound', n_networks=0),
                 dict(kind='onface', n_dim=3, n=200, seed=s + 14, cls='NautilusBound', n_networks=0, npm=6)]
        if tier == 'thorough':
            from .bounds_ops import POINTSETS
            for r in range(1, 9):
                for d in (2, 3, 5):
                    specs.append(dict(kind=POINTSETS[(r + d) % 7], n_dim=d, n=50 * d, seed=s + 100 * r + d,
                                      cls=['Ellipsoid', 'UnitCubeEllipsoidMixture'][r % 2], n_split=2 + r % 4,
                                      unit=bool(r % 3), rounds=6, roundtrip=bool(r % 2)))
                    specs.append(dict(kind=POINTSETS[(r + d + 3) % 7], n_dim=d, n=80 * d, seed=s + 100 * r + d + 30,
                                      cls='NautilusBound', n_networks=r % 3, pool=2 if r % 2 else None,
                                      periodic=[0] if r % 4 == 0 else None, rounds=4))
        outs = common.pmap(ro.job, specs)
        log = [r for o in outs for r in o]
        skipped = [r for r in log if not r.get('applicable', True)]
        log = [r for r in log if r.get('applicable', True)]
        if skipped:
            rep.notes.append('%d rounds did not have the generator call pattern the reconstruction assumes: oracle '
                             'not applicable for them (no verdict)' % len(skipped))
            rep.info('NOTE oracle not applicable for %d rounds (%s)' % (len(skipped), skipped[0].get('why')))
        parts = [log[i::4] for i in range(4)]

        def val(item):
            i, part = item
            return part, ro.validate(part, scratch, tag=str(i))
        for part, (fails, res) in common.tmap(val, list(enumerate(parts))):
            rep.coverage['transitions'] += len(part)
            rep.coverage['states'] += res.states
            mine = [(st, [n for n in ns if prop in RTAGS.get(n, set())]) for st, ns in fails
                    if any(prop in RTAGS.get(n, set()) for n in ns)]
            for st, ns in mine:
                r = part[st - 1]
                rep.violation('%s:%s' % (r['kind'], '+'.join(ns)),
                              'sampling round of %s (%s): %s fails; record %s' % (
                                  r['job'], r['kind'], ns, {k: (v if not isinstance(v, list) else v[:8]) for k, v in r.items()}),
                              dict(record=r))
            for st, ns in fails:
                d = [n for n in ns if not RTAGS.get(n, set())]
                if d:
                    rep.divergence('clause=%s round of %s' % (d, part[st - 1]['job']))
            if not mine:
                rep.coverage['traces_validated_against_impl'] += 1
        kinds = {}
        for r in log:
            kinds[r['kind']] = kinds.get(r['kind'], 0) + 1
        rep.coverage.update(rounds=kinds, proposals_checked=sum(len(r.get('m', [])) for r in log),
                            proposals_in_three_or_more_members=sum(sum(1 for x in r.get('m', []) if x >= 3) for r in log),
                            overlapping_proposals=sum(r.get('n_overlap', 0) for r in log))
        rep.coverage['allocation_records_with_a_member_of_variance_ge_25'] = sum(
            1 for r in log if r['kind'] == 'alloc' and len(r['counts']) >= 8
            and any(v * (1000 - v) >= 25000 for v in r['vrelm']))
        r0 = [r for r in log if r['kind'] == 'union' and r.get('n_overlap', 0) > 0][:1] or log[:1]
        rep.sample({k: (v if not isinstance(v, list) else v[:10]) for k, v in r0[0].items()})
        rep.notes.append('NOT decided by this check: uniformity of Ellipsoid.sample inside one ellipsoid and agreement of '
                         'exp(log_v) with the true measure within its Monte-Carlo error (distributional clauses, DESIGN 7)')
        rep.assumptions += ['numpy Generator.multinomial / random / normal are distributed as documented',
                            'a single ellipsoid is sampled uniformly (radius u^(1/d) construction; not decided here)']
    finally:
        common.rmtree(scratch)
    return rep.finish()
