"""C14: observe posterior(equal_weight=True, ...) on real runs with the generator cloned before the call."""
import json
import os
import warnings
import numpy as np

from . import common, tlc, ckpt
from .digest import digest, stored_digest
from .bounds_ops import clone_rng
from nautilus import Sampler  # noqa: E402

SCALE = 10 ** 6


def records_for_run(args):
    cfg, boosts, n_states = args
    model = ckpt.model_of(cfg)
    s = ckpt.make(cfg, model, None, resume=False, cls=Sampler)
    recs = []
    with warnings.catch_warnings():
        warnings.simplefilter('ignore')
        s.run(**dict(cfg.get('runkw') or dict(n_eff=80, discard_exploration=False)))
        has_blobs = s.blobs is not None
        g = np.random.default_rng(cfg['seed'] + 99)
        for b in boosts:
            for t in range(n_states):
                if t:
                    s.rng.random(int(g.integers(1, 50)))          # another generator state
                base = s.posterior(return_as_dict=False, return_blobs=has_blobs)
                pts, log_w, log_l = base[0], base[1], base[2]
                bl = base[3] if has_blobs else None
                n = len(log_w)
                r = np.exp(log_w - np.amax(log_w)) * b
                fl = np.floor(r)
                fr = r - fl
                clone = clone_rng(s.rng)
                pre_state = s.rng.bit_generator.state
                u = clone.random(n)
                st0 = stored_digest(s)
                w0 = digest([np.asarray(x) for x in base])
                out = s.posterior(return_as_dict=False, equal_weight=True, equal_weight_boost=b,
                                  return_blobs=has_blobs)
                clone_ok = bool(s.rng.bit_generator.state == clone.bit_generator.state)
                after = s.posterior(return_as_dict=False, return_blobs=has_blobs)
                idx = {np.ascontiguousarray(p).tobytes(): i + 1 for i, p in enumerate(pts)}
                order = [idx.get(np.ascontiguousarray(p).tobytes(), 0) for p in out[0]]
                mult = np.bincount(np.array(order, dtype=int), minlength=n + 1)[1:n + 1] if order else np.zeros(n, int)
                triples = True
                for k, i in enumerate(order):
                    if i == 0 or out[2][k] != log_l[i - 1]:
                        triples = False
                        break
                    if has_blobs and not np.array_equal(np.asarray(out[3][k]), np.asarray(bl[i - 1])):
                        triples = False
                        break
                # the same call returning dictionaries (Prior objects only): same rows, same weights, same blobs
                dict_ok = True
                if not callable(s.prior):
                    st_before = s.rng.bit_generator.state
                    s.rng.bit_generator.state = pre_state
                    outd = s.posterior(return_as_dict=True, equal_weight=True, equal_weight_boost=b, return_blobs=has_blobs)
                    s.rng.bit_generator.state = st_before
                    try:
                        keys = list(outd[0].keys())
                        arr = np.stack([np.asarray(outd[0][k]) for k in s.prior.keys if hasattr(s.prior.dists[s.prior.keys.index(k)], 'isf')], axis=-1)
                        dict_ok = bool(np.array_equal(arr, np.asarray(out[0])) and np.array_equal(outd[1], out[1]) and
                                       np.array_equal(outd[2], out[2]) and len(keys) == len(s.prior.keys))
                        if has_blobs:
                            dict_ok = dict_ok and bool(np.array_equal(np.asarray(outd[3]), np.asarray(out[3])))
                    except Exception:
                        dict_ok = False
                lw = np.asarray(out[1])
                weq = bool(len(lw) == 0 or (np.all(lw == lw[0]) and abs(np.sum(np.exp(lw)) - 1) < 1e-9))
                recs.append(dict(cfg=_key(cfg), boost=float(b), boostLe1=bool(b <= 1), n=int(n),
                                 fl=[int(x) for x in fl], fr=[int(np.floor(x * SCALE)) for x in fr],
                                 u=[int(np.floor(x * SCALE)) for x in u], mult=[int(x) for x in mult],
                                 order=order, cloneOK=clone_ok, triplesOK=bool(triples), weightsEqual=weq,
                                 weightedUnchanged=bool(w0 == digest([np.asarray(x) for x in after])),
                                 storedUnchanged=bool(st0 == stored_digest(s)), dictSame=bool(dict_ok),
                                 zero_weight_rows=int(np.sum(r == 0)), n_out=len(order)))
    ckpt._close(s)
    return recs


def _key(c):
    return ','.join('%s=%s' % (k, c[k]) for k in ('kind', 'blob', 'n_batch', 'n_networks') if k in c)


def validate(log, scratch, tag='ew'):
    path = os.path.join(scratch, 'ew_%s.json' % tag)
    json.dump(log, open(path, 'w'))
    cfg = path + '.cfg'
    tlc.write_cfg(cfg, spec='TSpec', constants=dict(G=SCALE, MaxFloor=1, MaxRows=1), postcondition='Done')
    res = tlc.run_tlc('EqualWeightTrace', cfg, workers=1, timeout=1200, env=dict(TRACE_FILE=path), heap='6g')
    fails, done = [], None
    for line in res.prints:
        v = tlc.parse_tla(line)
        if v[0] == '@@F':
            fails.append((int(v[1]), sorted(v[2][1])))
        elif v[0] == '@@DONE':
            done = (int(v[1]), int(v[2]))
    if done is None or done[0] != done[1] or done[1] != len(log):
        raise tlc.TLCError('EqualWeightTrace did not consume the log (%s)\n%s' % (done, res.out[-2500:]))
    return fails, res
