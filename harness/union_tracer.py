"""Record every Union.compute / split / trim that happens INSIDE real sampler runs (NautilusBound.compute builds
two unions per bound) and project them for BoundsTrace.tla: the union invariants of C13 on the unions the sampler
actually builds, not only on synthetic point sets."""
import contextlib
import numpy as np

from . import common  # noqa
from . import bounds_ops as bo
from nautilus.bounds import Union  # noqa: E402


class UnionLog:
    def __init__(self):
        self.records = []        # BoundsTrace records (Restore, Split, Trim, ...)
        self.unions = 0
        self.meta = {}           # id(union) -> (idx, v0, npts, label)
        self.depth = 0
        self.keep = []


@contextlib.contextmanager
def tracing(log):
    orig_compute = Union.__dict__['compute']
    orig_split, orig_trim = Union.split, Union.trim

    def compute(cls, points, *a, **k):
        u = orig_compute.__func__(cls, points, *a, **k)
        idx = {np.ascontiguousarray(p).tobytes(): i + 1 for i, p in enumerate(points)}
        log.unions += 1
        label = 'u%d' % log.unions
        log.meta[id(u)] = (idx, u.bounds[0].log_v, len(idx), label)
        log.keep.append(u)
        _rec(log, u, dict(name='Restore'), label)
        return u

    def split(self, allow_overlap=True):
        if id(self) not in log.meta:
            return orig_split(self, allow_overlap=allow_overlap)
        if log.depth == 0:
            # re-synchronise: between two operations the owner may have read log_v (which samples)
            _rec(log, self, dict(name='Restore'), None)
        log.depth += 1
        try:
            r = orig_split(self, allow_overlap=allow_overlap)
        except common.CpuTimeout:
            log.depth = 0
            raise                        # the harness's own time limit, not an exception of the code under test
        except Exception as e:
            log.depth -= 1
            if log.depth == 0:
                _rec(log, self, dict(name='Raise', op='split', exc=type(e).__name__, msg=str(e)[:150]), None, frozen=True)
            raise
        log.depth -= 1
        if log.depth == 0:          # split() recurses after blocking an ellipsoid: log the outermost call only
            _rec(log, self, dict(name='Split', allow=bool(allow_overlap), ret=bool(r), shrinkOK=True), None)
        return r

    def trim(self, *a, **k):
        if id(self) not in log.meta:
            return orig_trim(self, *a, **k)
        _rec(log, self, dict(name='Restore'), None)
        try:
            r = orig_trim(self, *a, **k)
        except common.CpuTimeout:
            raise
        except Exception as e:
            _rec(log, self, dict(name='Raise', op='trim', exc=type(e).__name__, msg=str(e)[:150]), None, frozen=True)
            raise
        _rec(log, self, dict(name='Trim', ret=bool(r)), None)
        return r

    Union.compute = classmethod(compute)
    Union.split = split
    Union.trim = trim
    try:
        yield log
    finally:
        Union.compute = orig_compute
        Union.split = orig_split
        Union.trim = orig_trim


def _rec(log, u, event, label, frozen=False):
    idx, v0, npts, lab = log.meta[id(u)]
    if frozen and log.records:
        st, obs = log.records[-1]['state'], log.records[-1]['obs']
    else:
        st = bo.project_union(u, idx, v0)
        obs = bo.observe_union(u, u.cube is not None)
    log.records.append(dict(event=event, state=st, obs=obs, node='%s/%s' % (lab, event['name']), npts=npts))


def sampler_union_log(cfg):
    """Run one sampler configuration (plain Sampler) with union tracing; returns BoundsTrace records."""
    import warnings
    from . import ckpt
    from nautilus import Sampler
    model = ckpt.model_of(cfg)
    log = UnionLog()
    with tracing(log), warnings.catch_warnings():
        warnings.simplefilter('ignore')
        s = ckpt.make(cfg, model, None, resume=False, cls=Sampler)
        try:
            kw = dict(cfg.get('runkw') or dict(n_eff=40, discard_exploration=True))
            kw.setdefault('n_like_max', 1500)          # bounded: the unions built on the way are what matters here
            with common.cpu_limit(120):
                s.run(**kw)
        except common.CpuTimeout:
            pass                                       # keep what was recorded so far
        except Exception as e:
            log.records.append(dict(event=dict(name='Raise', op='run', exc=type(e).__name__, msg=str(e)[:150]),
                                    state=log.records[-1]['state'] if log.records else dict(recs=[], lens=[0, 0, 0, 0], trimmed=[], cache=0, nsamp=0, nrej=0),
                                    obs=dict(enclosed=True, volsAligned=True), node='run/Raise', npts=1))
        finally:
            ckpt._close(s)
    # per-union sequences are interleaved in time (two unions per bound, one after the other): regroup so that
    # each union's records are contiguous and start with its Restore
    by = {}
    for r in log.records:
        by.setdefault(r['node'].split('/')[0], []).append(r)
    out = []
    for k in sorted(by, key=lambda x: int(x[1:]) if x[1:].isdigit() else 10 ** 9):
        out += by[k]
    return dict(job=dict(cfg), log=out, edges=len(out), unions=log.unions)
