"""TracedSampler: observes a real nautilus.Sampler from outside (subclass, no source hooks).

Each overridden method calls the original and then logs ONE event whose post-state is the
projection of the concrete sampler state to the abstract state of spec/Sampler.tla.
The library is sequential, so "after the method returns" is the linearization point.
"""
import numpy as np
from scipy.special import logsumexp

from . import common  # noqa: F401  (puts the tree under test on sys.path)
from .digest import digest, stored_digest, stats_digest, essential_parts

from nautilus import Sampler  # noqa: E402

CLIP = 10 ** 9


def lvl_of(ll):
    """log-likelihood -> integer level (0 for -inf); None if it is not log(integer)."""
    if ll == -np.inf:
        return 0
    if not np.isfinite(ll):
        return -1
    v = float(np.exp(ll))
    k = int(round(v))
    if k < 1 or abs(v - k) > 1e-6 * max(1, k):
        return -1
    return k


def _res(x):
    if x is None or not np.isfinite(x):
        return CLIP
    return int(max(-CLIP, min(CLIP, round(x * 1e9))))


class Registry:
    """History-wide bookkeeping shared by all sampler objects of one history (resumes included)."""

    def __init__(self, model):
        self.model = model
        self.first_id = {}       # bytes of unit point -> id of first evaluation
        self.theta_id = {}       # bytes of prior(point) -> id
        self.points = []         # id-1 -> unit point
        self.lvl = []            # level returned at evaluation time
        self.blob = []           # blob code returned at evaluation time
        self.cube = []
        self.bound_refs = []     # keep bound objects alive so that id() stays unique
        self.bound_name = {}
        self.next_name = 1
        self.dig_ids = {}
        self.events = []
        self.pc = 'out'
        self.run = dict(active=False, nLikeMax=-1, nShell=1, timeout0=False, discardArg=False, nlikeAtCall=0)
        self.ret = 'none'
        self.neff_target = None
        self.last_bseq = []
        self.last_tq = []
        self.notes = []
        self.pc_returning = False
        self.neff_met = False
        self.sparse = False

    def dig_id(self, hexd):
        return self.dig_ids.setdefault(hexd, len(self.dig_ids) + 1)

    def name_of(self, bound):
        k = id(bound)
        if k not in self.bound_name:
            self.bound_name[k] = self.next_name
            self.next_name += 1
            self.bound_refs.append(bound)
        return self.bound_name[k]

    def adopt(self, bounds, names):
        for b, n in zip(bounds, names):
            self.bound_name[id(b)] = n
            self.bound_refs.append(b)

    def ids_of(self, P):
        return [self.first_id.get(np.ascontiguousarray(p).tobytes(), 0) for p in P]


class TracedSampler(Sampler):

    def __init__(self, reg, *a, **k):
        self._reg = reg
        self._pending = None
        self._in_run = False
        self._ss = None
        self._ev_eval = None
        super().__init__(*a, **k)
        if len(self.bounds) > 0:
            # resumed from a checkpoint: bound objects are new, their names are positional
            reg.adopt(self.bounds, reg.last_bseq)
            reg.pc = 'out'
            reg.run = dict(reg.run, active=False)
            self._emit('Resume')
            self._flush()
        elif not reg.events:
            self._emit('Init')
            self._flush()
        else:
            # resume=True but no checkpoint exists yet: nautilus starts from scratch
            reg.pc = 'out'
            reg.run = dict(reg.run, active=False)
            reg.neff_met = False
            self._emit('Restart')
            self._flush()

    # ------------------------------------------------------------------ event plumbing
    def _flush(self):
        if self._pending is not None:
            rec = self._pending
            self._pending = None
            # run() assigns the two loop counters after add_bound/add_samples returned: read them late
            rec['state']['updIter'] = int(getattr(self, 'n_update_iter', 0))
            rec['state']['likeIter'] = int(getattr(self, 'n_like_iter', 0))
            self._reg.events.append(rec)

    def _emit(self, name, **ev):
        self._flush()
        reg = self._reg
        if name in ('RunCall', 'FirstBound', 'EndExploration'):
            reg.pc = 'top'
        elif name.startswith('AddBound'):
            reg.pc = 'bounded'
        elif name == 'AddSamples':
            reg.pc = 'top' if ev.pop('_explored_before') else 'batched'
        elif name in ('RunReturn', 'Resume', 'Restart'):
            reg.pc = 'out'
        if name in ('Resume', 'SetDiscard'):
            reg.neff_met = False
        if reg.sparse:
            return                      # snapshot-only histories: ids are registered, steps are not projected
        rec = project(self, reg)
        rec['event'] = dict(name=name, **ev)
        self._pending = rec

    # ------------------------------------------------------------------ overridden methods
    def add_bound(self, *a, **k):
        self._flush()
        first = len(self.bounds) == 0
        r = super().add_bound(*a, **k)
        self._emit('FirstBound' if first else ('AddBoundAccept' if r else 'AddBoundReject'))
        return r

    def sample_shell(self, index, shell_t=None):
        b = self.bounds[index]
        cls = type(b)
        orig = cls.sample
        rec = []

        def wrapper(this, *a, **k):
            r = orig(this, *a, **k)
            if this is b and r is not None:
                rec.append(np.array(r))
            return r
        shell_t_before = None if shell_t is None else np.array(shell_t).copy()
        cls.sample = wrapper
        try:
            r = super().sample_shell(index, shell_t)
        finally:
            cls.sample = orig
        props = np.concatenate(rec) if rec else np.zeros((0, self.n_dim))
        idx = index if index >= 0 else len(self.bounds) + index
        later = np.zeros(len(props), dtype=bool)
        for bb in self.bounds[idx + 1:]:
            later |= bb.contains(props)
        ss = dict(nbound=int(r[1]), nprop=int(len(props)), rejLater=int(np.sum(later)), provOK=True)
        if shell_t is not None and len(shell_t_before) > 0:
            surv = set(p.tobytes() for p in r[0])
            repl = np.array([p for p, lt in zip(props, later) if not lt and p.tobytes() not in surv]
                            ).reshape(-1, self.n_dim)
            idx_t = np.asarray(r[2], dtype=int)
            ok = len(repl) == len(idx_t)
            if ok and len(repl) > 0:
                a_repl = self.shell_association(repl, n_max=len(self.bounds) - 1)
                a_tr = shell_t_before[idx_t]
                ok = sorted(a_repl.tolist()) == sorted(a_tr.tolist())
            ss['provOK'] = bool(ok)
        self._ss = ss
        return r

    def evaluate_likelihood(self, points):
        reg = self._reg
        m = reg.model
        before = np.array(points, copy=True)
        n0 = m.n_calls
        c0 = len(m.calls)
        log_l, blobs = super().evaluate_likelihood(points)
        intact = bool(before.shape == np.shape(points) and np.array_equal(before, points))
        inproc = self.pool_l is None or bool(getattr(getattr(self.pool_l, 'pool', None), 'in_process', False))
        ncalls = (m.n_calls - n0) if inproc else len(before)
        args_ok = intact
        if inproc and m.record:
            seen = m.calls[c0:]
            if len(seen) != len(before):
                # (more or fewer calls than points is the business of AS_BatchExact, not of this clause)
                args_ok = args_ok and len(seen) >= len(before)
            if self.pool_l is None:
                for u, th in zip(before, seen):
                    if not np.array_equal(m.prior_pure(u), th):
                        args_ok = False
                        break
            else:
                # an in-process pool may run the tasks in any order: every point must have been seen as prior(point)
                got = set(np.ascontiguousarray(th).tobytes() for th in seen)
                for u in before:
                    if np.ascontiguousarray(m.prior_pure(u)).tobytes() not in got:
                        args_ok = False
                        break
        for k, u in enumerate(before):
            nid = len(reg.points) + 1
            key = np.ascontiguousarray(u).tobytes()
            reg.first_id.setdefault(key, nid)
            reg.theta_id.setdefault(np.ascontiguousarray(m.prior_pure(u)).tobytes(), nid)
            reg.points.append(u)
            reg.cube.append(bool(np.all((u >= 0) & (u < 1))))
            try:
                reg.lvl.append(lvl_of(log_l[k]))
            except Exception:
                reg.lvl.append(-1)
            try:
                reg.blob.append(m.decode_blob(blobs[k]) if blobs is not None else 0)
            except Exception:
                reg.blob.append(-1)
        self._ev_eval = dict(batchCalls=int(ncalls), argsOK=bool(args_ok))
        return log_l, blobs

    def add_samples(self, shell, *a, **k):
        self._flush()
        explored = bool(self.explored)
        argmax_ok = True
        if explored:
            ns = self._reg.run.get('nShell', 1)
            low = np.flatnonzero(self.shell_n < ns)
            if len(low):
                argmax_ok = bool(shell == low[0])
            else:
                with np.errstate(all='ignore'):
                    crit = (self.shell_log_l + self.shell_log_v - 0.5 * np.log(self.shell_n) -
                            0.5 * np.log(self.shell_n_eff))
                argmax_ok = bool(shell == np.argmax(crit))
        self._ss = None
        self._ev_eval = None
        r = super().add_samples(shell, *a, **k)
        nb = len(self.bounds)
        si = (nb + shell if shell < 0 else int(shell)) + 1
        ss = self._ss or dict(nbound=-1, nprop=-1, rejLater=-1, provOK=False)
        ee = self._ev_eval or dict(batchCalls=-1, argsOK=False)
        self._emit('AddSamples', si=si, argmaxOK=argmax_ok, _explored_before=explored, **ss, **ee)
        return r

    @property
    def discard_exploration(self):
        return self._discard_exploration

    @discard_exploration.setter
    def discard_exploration(self, v):
        self._flush()
        try:
            Sampler.discard_exploration.fset(self, v)
        except ValueError:
            self._emit('SetDiscardRejected')
            self._flush()
            raise
        if self._in_run:
            self._emit('EndExploration')
        else:
            self._emit('SetDiscard', d=bool(v))
            self._flush()

    def run(self, f_live=0.01, n_shell=1, n_eff=10000, n_like_max=np.inf,
            discard_exploration=False, timeout=np.inf, verbose=False):
        reg = self._reg
        self._flush()
        reg.run = dict(active=True, nLikeMax=(-1 if n_like_max == np.inf else int(n_like_max)),
                       nShell=int(n_shell), timeout0=bool(timeout <= 0),
                       discardArg=bool(discard_exploration), nlikeAtCall=int(self.n_like))
        reg.neff_target = n_eff
        reg.ret = 'none'
        self._in_run = True
        self._emit('RunCall', nLikeMax=reg.run['nLikeMax'], nShell=reg.run['nShell'],
                   timeout0=reg.run['timeout0'], discardArg=reg.run['discardArg'])
        try:
            r = super().run(f_live=f_live, n_shell=n_shell, n_eff=n_eff, n_like_max=n_like_max,
                            discard_exploration=discard_exploration, timeout=timeout, verbose=verbose)
        finally:
            self._in_run = False
            self._flush()
        reg.ret = 'T' if r else 'F'
        reg.run = dict(reg.run, active=False)
        # oracle bit cross-check: n_eff recomputed from the abstract state agrees with the comparison made
        ne = indep_estimates(self)
        neff_ok = True
        if ne is not None and ne['n_eff'] is not None and np.isfinite(ne['n_eff']):
            if abs(ne['n_eff'] - n_eff) > 1e-6 * max(1.0, abs(n_eff)):
                neff_ok = bool((ne['n_eff'] >= n_eff) == (float(self.n_eff) >= n_eff))
        reg.pc_returning = True
        try:
            self._emit('RunReturn', success=bool(r), neffOK=neff_ok)
            self._flush()
        finally:
            reg.pc_returning = False
        return r

    # ------------------------------------------------------------------ observers driven by the harness
    def traced_observe(self, what):
        """Call a read-only accessor and log an Observe event."""
        import warnings
        import io
        import contextlib
        extra = {}
        with warnings.catch_warnings():
            warnings.simplefilter('ignore')
            with np.errstate(all='ignore'):
                if what == 'log_z':
                    self.log_z
                elif what == 'n_eff':
                    self.n_eff
                elif what == 'eta':
                    self.eta
                elif what == 'f_live':
                    self.f_live
                elif what == 'log_v_live':
                    # not one of the accessors C11 lists; defined for the exploration phase only
                    if len(self.bounds) and not self.explored:
                        self.log_v_live
                elif what == 'posterior':
                    if len(self.points):
                        self.posterior()
                elif what == 'occupation':
                    self.shell_bound_occupation()
                    # the absolute matrix is logged: the trace specification recomputes it from the signatures
                    extra['occ'] = [[int(x) for x in row] for row in self.shell_bound_occupation(fractional=False)]
                elif what == 'deprecated':
                    self.evidence()
                    self.effective_sample_size()
                    self.asymptotic_sampling_efficiency()
                elif what == 'print_status':
                    with contextlib.redirect_stdout(io.StringIO()):
                        self.print_status()
                elif what == 'discard_get':
                    self.discard_exploration
                else:
                    raise ValueError(what)
        self._emit('Observe', what=what, **extra)
        self._flush()

    def traced_posterior(self):
        """posterior() with every row mapped back to the id of the evaluated point."""
        reg = self._reg
        m = reg.model
        has_blobs = self.blobs is not None
        with np.errstate(all='ignore'):
            out = self.posterior(return_as_dict=False, return_blobs=has_blobs)
        pts, log_w, log_l = out[0], out[1], out[2]
        blobs = out[3] if has_blobs else None
        rows = [reg.theta_id.get(np.ascontiguousarray(np.asarray(p, dtype=float)).tobytes(), 0) for p in pts]
        row_lvl = [lvl_of(x) for x in log_l]
        row_blob = [m.decode_blob(b) for b in blobs] if has_blobs else [0] * len(rows)
        self._emit('Posterior', rows=rows, rowLvl=row_lvl, rowBlob=row_blob, pointsOK=bool(all(r > 0 for r in rows)))
        # weight residuals against the estimator the specification defines
        rec = self._pending
        if rec is None:
            return out
        est = indep_estimates(self)
        if est is not None and est['w'] is not None and len(est['w']) == len(log_w) and est['z'] > 0:
            w = np.exp(log_w)
            rec['resid']['wsum'] = _res(np.sum(w) - 1.0)
            rec['resid']['wrow'] = _res(float(np.max(np.abs(w - est['w'] / np.sum(est['w'])))) /
                                        max(float(np.max(w)), 1e-300))
            ne_post = float(np.sum(w) ** 2 / np.sum(w ** 2))
            rec['resid']['n_eff_post'] = _res((ne_post - float(self.n_eff)) / max(abs(ne_post), 1e-300))
        elif est is not None and est['w'] is not None and len(est['w']) != len(log_w):
            rec['resid']['wrow'] = CLIP
        self._flush()
        return out


# ---------------------------------------------------------------------- projection
def _view(s):
    if s._discard_exploration and s.explored:
        return [int(x) for x in s.shell_end_exp], [int(a - b) for a, b in zip(s.shell_n_sample, s.shell_n_sample_exp)]
    return [0] * len(s.points), [int(x) for x in s.shell_n_sample]


def indep_estimates(s):
    """Estimators recomputed from the stored rows, the proposal counts and the bound volumes
    (the formulas spec/Sampler.tla states; nothing of shell_n / shell_log_l / shell_log_v is used)."""
    nb = len(s.bounds)
    if nb == 0 or len(s.points) != nb:
        return None
    start, nsv = _view(s)
    z, zq, n, lv_all, Vb, ok = [], [], [], [], [], True
    w_rows = []
    for i in range(nb):
        b = s.bounds[i]
        if getattr(b, 'n_sample', 1) == 0:
            return None                      # log_v would sample (not read-only): skip
        ll = np.asarray(s.log_l[i])[start[i]:]
        lev = np.where(ll == -np.inf, 0.0, np.exp(ll))
        ni = len(ll)
        n.append(ni)
        vb = float(np.exp(b.log_v))
        Vb.append(vb)
        if ni == 0 or nsv[i] <= 0:
            z.append(0.0)
            zq.append(0.0)
            continue
        z.append(vb / nsv[i] * float(np.sum(lev)))
        zq.append((vb / nsv[i]) ** 2 * float(np.sum(lev ** 2)))
        w_rows.append(lev * vb / nsv[i])
    Z = float(np.sum(z))
    out = dict(z=Z, log_z=(np.log(Z) if Z > 0 else -np.inf) if sum(n) > 0 else None, Vb=Vb, n=n, nsv=nsv)
    out['n_eff'] = (Z ** 2 / float(np.sum(zq))) if Z > 0 else None
    # eta = (sum z)^2 / (sum z_i / sqrt(eta_i))^2, eta_i = n_eff_i / n_i
    den = 0.0
    for i in range(nb):
        if n[i] > 0 and z[i] > 0:
            eta_i = (z[i] ** 2 / zq[i]) / n[i]
            den += z[i] / np.sqrt(eta_i)
    out['eta'] = (Z ** 2 / den ** 2) if Z > 0 and den > 0 else None
    out['w'] = np.concatenate(w_rows) if w_rows else None
    return out


def project(s, reg):
    """Concrete sampler state -> abstract state of Sampler.tla (+ integer statistics, residuals, digests)."""
    m = reg.model
    n = len(reg.points)
    names = [reg.name_of(b) for b in s.bounds]
    reg.last_bseq = names
    P = np.array(reg.points).reshape(n, s.n_dim) if n else np.zeros((0, s.n_dim))
    inb = [[] for _ in range(n)]
    if n:
        for b, nm in zip(s.bounds, names):
            c = np.atleast_1d(b.contains(P))
            for i in np.flatnonzero(c):
                inb[i].append(nm)
    shell = [reg.ids_of(p) for p in s.points]
    slv = [[lvl_of(x) for x in ll] for ll in s.log_l]
    if s.blobs is not None:
        sbl = []
        for bl in s.blobs:
            row = []
            for x in np.atleast_1d(np.asarray(bl)):
                try:
                    row.append(m.decode_blob(x))
                except Exception:
                    row.append(-1)
            sbl.append(row)
        while len(sbl) < len(shell):
            sbl.append([])
    else:
        sbl = [[0] * len(x) for x in shell]
    # transfer queue (meaningful only while exploring; dead afterwards)
    tq = []
    if not s.explored and len(np.atleast_1d(s.shell_t)) > 0:
        pt = np.asarray(s.points_t).reshape(-1, s.n_dim)
        st = np.asarray(s.shell_t, dtype=int)
        lt = np.asarray(s.log_l_t)
        bt = s.blobs_t
        ids = reg.ids_of(pt)
        for k in range(len(st)):
            frm = int(names[st[k]]) if 0 <= st[k] < len(names) else 0
            try:
                bc = m.decode_blob(bt[k]) if bt is not None else 0
            except Exception:
                bc = -1
            tq.append(dict(id=ids[k], frm=frm, l=lvl_of(lt[k]), b=bc))
    # pure re-evaluation of every stored row
    mis = 0
    for i, p in enumerate(s.points):
        for k, u in enumerate(p):
            if m.loglike_of_level(m.unit_level(u)) != s.log_l[i][k]:
                mis += 1
            elif s.blobs is not None and i < len(s.blobs) and k < len(np.atleast_1d(s.blobs[i])):
                try:
                    if m.decode_blob(np.atleast_1d(s.blobs[i])[k]) != m.unit_code(u):
                        mis += 1
                except Exception:
                    mis += 1
        if s.blobs is not None and (i >= len(s.blobs) or np.ndim(s.blobs[i]) == 0 or len(s.blobs[i]) != len(p)):
            mis += 1
        if len(s.log_l[i]) != len(p):
            mis += 1
    assoc_ok = True
    if len(s.bounds) == len(s.points):
        for i, p in enumerate(s.points):
            if len(p) and not np.all(s.shell_association(p) == i):
                assoc_ok = False
    state = dict(
        bseq=names, nextB=reg.next_name, inb=inb, cube=list(reg.cube), lvl=list(reg.lvl), blob=list(reg.blob),
        shell=shell, slv=slv, sbl=sbl, tq=tq,
        nsamp=[int(x) for x in s.shell_n_sample],
        nsampExp=[int(x) for x in s.shell_n_sample_exp], endExp=[int(x) for x in s.shell_end_exp],
        lmin=[lvl_of(x) for x in s.shell_log_l_min],
        explored=bool(s.explored), discard=bool(s._discard_exploration), nlike=int(s.n_like),
        updIter=int(getattr(s, 'n_update_iter', 0)), likeIter=int(getattr(s, 'n_like_iter', 0)),
        pc=reg.pc, run=dict(reg.run), ret=reg.ret, neffMet=False)
    if (reg.run['active'] or reg.pc_returning) and reg.neff_target is not None and len(s.bounds) > 0:
        with np.errstate(all='ignore'):
            try:
                reg.neff_met = bool(s.explored) and bool(s.n_eff >= reg.neff_target)
            except Exception:
                reg.neff_met = False
    state['neffMet'] = bool(reg.neff_met)
    # integer statistics as the implementation holds them
    stats = dict(n=[int(x) for x in s.shell_n], S=[], Q=[])
    with np.errstate(all='ignore'):
        for i in range(len(s.shell_n)):
            ni = int(s.shell_n[i])
            sl = s.shell_log_l[i]
            if ni == 0 or np.isnan(sl):
                stats['S'].append(0)
                stats['Q'].append(0)
            elif sl == -np.inf:
                stats['S'].append(0)
                stats['Q'].append(-int(round(float(s.shell_n_eff[i]))))
            else:
                Sf = float(np.exp(sl)) * ni
                stats['S'].append(int(round(Sf)))
                ne = float(s.shell_n_eff[i])
                stats['Q'].append(int(round(Sf * Sf / ne)) if ne > 0 else -1)
    # residuals of the float leg
    resid = dict(shell_log_v=[], log_z=0, n_eff=0, eta=0, wsum=0, wrow=0, n_eff_post=0)
    with np.errstate(all='ignore'):
        est = indep_estimates(s)
        if est is not None:
            for i in range(len(s.bounds)):
                ni, nsi = est['n'][i], est['nsv'][i]
                imp = float(s.shell_log_v[i])
                if ni == 0:
                    resid['shell_log_v'].append(0 if (np.isnan(imp) or imp == -np.inf) else CLIP)
                else:
                    exp = np.log(est['Vb'][i]) + np.log(ni / nsi) if nsi > 0 else np.inf
                    resid['shell_log_v'].append(_res(imp - exp))
            lz = s.log_z
            if est['log_z'] is None:
                resid['log_z'] = 0 if lz is None else CLIP
            elif lz is None:
                resid['log_z'] = CLIP
            elif est['log_z'] == -np.inf:
                resid['log_z'] = 0 if lz == -np.inf else CLIP
            else:
                resid['log_z'] = _res(float(lz) - est['log_z'])
            if est['n_eff'] is not None:
                resid['n_eff'] = _res((float(s.n_eff) - est['n_eff']) / est['n_eff'])
            if est['eta'] is not None:
                resid['eta'] = _res((float(s.eta) - est['eta']) / est['eta'])
    ep = essential_parts(s)
    ep.pop('n_update_iter', None)
    ep.pop('n_like_iter', None)
    dig = dict(stored=reg.dig_id(stored_digest(s)), stats=reg.dig_id(stats_digest(s)),
               all=reg.dig_id(digest(ep)))
    return dict(state=state, stats=stats, resid=resid, dig=dig, misaligned=int(mis), assocOK=bool(assoc_ok))
