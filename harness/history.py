"""Execute a user-level history (run slices, toggles, observers, resumes) on the real Sampler
and return the event log for SamplerTrace.tla.

A configuration is a plain dict (JSON-able) so that it can be stored as a replay file.
"""
import json
import os
import time
import warnings
import numpy as np

from . import common
from .families import Model
from .traced import TracedSampler, Registry

DEFAULT = dict(kind='gauss', n_dim=2, K=8, mseed=0, blob='none', prior='id', vectorized=False,
               n_live=20, n_batch=4, n_update=None, n_like_new_bound=None, n_points_min=4,
               n_networks=0, periodic=None, pool=None, seed=1, enlarge_per_dim=1.1,
               split_threshold=100, filepath=False, world=None, snapshot_only=False,
               history=[['run', dict(n_eff=60, n_like_max=600, discard_exploration=True)], ['posterior']])


def full(cfg):
    c = dict(DEFAULT)
    c.update(cfg)
    return c


def constants(cfg):
    c = full(cfg)
    n_live = c['n_live']
    return dict(NLive=n_live, NBatch=c['n_batch'],
                NUpdate=c['n_update'] if c['n_update'] is not None else n_live,
                NLikeNewBound=c['n_like_new_bound'] if c['n_like_new_bound'] is not None else 10 * n_live,
                NPointsMin=c['n_points_min'], K=c['K'])


def make_sampler(cfg, reg, path=None, resume=True):
    c = full(cfg)
    m = reg.model
    kw = dict(n_live=c['n_live'], n_batch=c['n_batch'], n_update=c['n_update'],
              n_like_new_bound=c['n_like_new_bound'], n_points_min=c['n_points_min'],
              n_networks=c['n_networks'], seed=c['seed'], enlarge_per_dim=c['enlarge_per_dim'],
              split_threshold=c['split_threshold'], filepath=path, resume=resume)
    if c['periodic'] is not None:
        kw['periodic'] = np.array(c['periodic'], dtype=int)
    scripted = None
    if c['pool'] is not None and c['pool'] != 'scripted3':
        kw['pool'] = tuple(c['pool']) if isinstance(c['pool'], (list, tuple)) else c['pool']
    if c['pool'] == 'scripted3':
        scripted = 3
    if c['n_networks'] > 0:
        kw['neural_network_kwargs'] = dict(hidden_layer_sizes=(8, 4), max_iter=60)
    kw.update(m.sampler_kwargs())
    s = TracedSampler(reg, m.prior(), m.likelihood, **kw)
    if scripted:
        # an in-process pool of three workers (completion order reversed): the likelihood calls it makes are counted
        from .equiv import ScriptedPool
        from nautilus.pool import NautilusPool
        s.pool_l = NautilusPool(ScriptedPool([[0]], size=scripted))
    return s


def close_pools(s):
    for p in (getattr(s, 'pool_l', None), getattr(s, 'pool_s', None)):
        try:
            if p is not None and hasattr(p.pool, 'terminate'):
                p.pool.terminate()
                p.pool.join()
        except Exception:
            pass


def run_history(cfg, scratch_dir=None):
    """Returns dict(events=[...], info=...).  Exceptions of the code under test are reported as events."""
    c = full(cfg)
    world = None
    if c.get('world'):
        from . import cellworld
        w = c['world']
        world = cellworld.World(w['lv'], w['extra'], w['drop'], c['K'])
    model = Model(kind=c['kind'], n_dim=c['n_dim'], K=c['K'], seed=c['mseed'], blob=c['blob'],
                  prior=c['prior'], vectorized=c['vectorized'], cells_lv=(world.lv if world else None))
    reg = Registry(model)
    reg.sparse = bool(c.get('snapshot_only'))
    path = None
    if c['filepath']:
        d = scratch_dir or common.scratch('hist_')
        path = os.path.join(d, 'ckpt_%d.h5' % os.getpid())
        if os.path.exists(path):
            os.unlink(path)
    info = dict(returns=[], error=None, n_like=0, wall_s=0.0)
    t0 = time.time()
    s = None
    import contextlib
    geometry = cellworld.install(world) if world else contextlib.nullcontext()
    with warnings.catch_warnings(), geometry, common.cpu_limit(400):
        warnings.simplefilter('ignore')
        try:
            s = make_sampler(c, reg, path, resume=False)
            for cmd in c['history']:
                op = cmd[0]
                if op == 'run':
                    kw = dict(cmd[1])
                    if kw.get('n_like_max') == 'inf':
                        kw['n_like_max'] = np.inf
                    if 'n_like_rel' in kw:           # budget relative to the current count
                        kw['n_like_max'] = int(s.n_like) + int(kw.pop('n_like_rel'))
                    info['returns'].append(bool(s.run(**kw)))
                elif op == 'toggle':
                    try:
                        s.discard_exploration = cmd[1]
                    except ValueError:
                        pass
                elif op == 'observe':
                    s.traced_observe(cmd[1])
                elif op == 'posterior':
                    if len(s.points) and sum(len(p) for p in s.points):
                        s.traced_posterior()
                elif op == 'resume':
                    if path is None:
                        raise RuntimeError('resume without filepath')
                    close_pools(s)
                    s = make_sampler(c, reg, path, resume=True)
                else:
                    raise ValueError(op)
        except Exception as e:     # the code under test raised: that is an observation, not a harness failure
            import traceback
            info['error'] = '%s: %s' % (type(e).__name__, e)
            info['traceback'] = traceback.format_exc()[-1500:]
            if s is not None:
                try:
                    s._flush()
                except Exception:
                    pass
        finally:
            if s is not None:
                close_pools(s)
            if path and os.path.exists(path) and scratch_dir is None:
                common.rmtree(os.path.dirname(path))
    if c.get('snapshot_only') and s is not None and info['error'] is None:
        # one record: the final state, on which TLC evaluates every state invariant of Sampler.tla
        from .traced import project
        reg.pc = 'out'
        rec = project(s, reg)
        rec['event'] = dict(name='Snapshot')
        reg.events = [rec]
    info['n_like'] = len(reg.points)
    info['wall_s'] = round(time.time() - t0, 2)
    info['event_names'] = [e['event']['name'] for e in reg.events]
    return dict(events=reg.events, info=info)


def write_trace(events, path):
    with open(path, 'w') as f:
        json.dump(events, f, default=common._jd)
    return path
