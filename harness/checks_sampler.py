"""Checks decided with spec/Sampler.tla: C01, C02, C03, C10, C12 (and the observer part of C11).

Pipeline of one check run:
  (a) TLC explores Sampler.tla exhaustively for small constants (all invariants / action properties);
  (b) TLC (Driver.tla, -simulate) generates user-level histories;
  (c) a configuration matrix x histories is executed on the real code by TracedSampler;
  (d) TLC (SamplerTrace.tla) validates every logged step clause by clause and every invariant in
      every logged state; failures are scoped to the property being checked (validate.TAGS).
"""
import json
import os
import random

from . import common, tlc, history, validate

OBSERVERS = ['log_z', 'n_eff', 'eta', 'f_live', 'log_v_live', 'posterior', 'occupation', 'deprecated',
             'print_status', 'discard_get']

MC_INVARIANTS = ['Aligned', 'ShellPartition', 'InCube', 'NoDup', 'TqDisjoint', 'TriplesFaithful',
                 'CountLeProposals', 'ExpSplitSane', 'NLikeExact', 'BudgetRespected',
                 'NonEmptyAfterExploration', 'OccupationTriangular']
MC_PROPERTIES = ['ExploredStable', 'FrozenBounds', 'AppendOnly', 'ExpSplitFrozen', 'EvalImmutable',
                 'NLikeMonotone', 'ReturnIffDone']

MC_CORE = dict(NLive=2, NBatch=2, NUpdate=1, NLikeNewBound=4, NPointsMin=1, Levels={1, 2},
               MaxBounds=3, MaxPts=6, MaxRej=1, Unlimited='<- MinusOne')
MC_CORE0 = dict(MC_CORE, Levels={0, 1, 2})
MC_RUN = dict(NLive=1, NBatch=1, NUpdate=1, NLikeNewBound=2, NPointsMin=1, Levels={1, 2},
              MaxBounds=2, MaxPts=3, MaxRej=0, Unlimited='<- MinusOne')


def model_check(rep, tier, scratch):
    """Exhaustive exploration of the sampler state machine for small constants."""
    runs = [('core', 'SpecCore', MC_CORE, 300)]
    if tier == 'thorough':
        runs.append(('core_with_minus_inf', 'SpecCore', MC_CORE0, 1500))
    runs.append(('run_layer', 'SpecRun', MC_RUN, 600))
    for label, spec, consts, to in runs:
        cfg = os.path.join(scratch, 'Sampler_%s.cfg' % label)
        tlc.write_cfg(cfg, spec=spec, constants=consts, invariants=MC_INVARIANTS,
                      properties=MC_PROPERTIES, constraint='MCConstraint')
        res = tlc.run_tlc('Sampler', cfg, workers=common.NCPU, timeout=to)
        rep.add_tlc(res, 'Sampler.tla/' + label)
        if res.timeout:
            if label != 'core_with_minus_inf':
                # these configurations finish in seconds: a timeout means the specification (or the machine) is broken
                raise tlc.TLCError('TLC configuration %s did not finish within %d s' % (label, to))
            rep.notes.append('TLC %s: time-boxed (%ds), %d states explored, no violation' % (label, to, res.states))
            continue
        if not res.ok:
            rep.violation('spec:%s:%s' % (label, res.violated),
                          'Sampler.tla (%s) violates %s: the DESIGN admits a bad state' % (label, res.violated),
                          dict(tlc_out=res.out[-4000:]))
    if tier == 'thorough':
        # beyond exhaustive reach: random behaviours of a larger instance (time-boxed)
        big = dict(NLive=3, NBatch=2, NUpdate=2, NLikeNewBound=6, NPointsMin=1, Levels={0, 1, 2, 3},
                   MaxBounds=4, MaxPts=14, MaxRej=2, Unlimited='<- MinusOne')
        cfg = os.path.join(scratch, 'Sampler_sim.cfg')
        tlc.write_cfg(cfg, spec='SpecRun', constants=big, invariants=MC_INVARIANTS, properties=MC_PROPERTIES,
                      constraint='MCConstraint')
        res = tlc.run_tlc('Sampler', cfg, workers=common.NCPU, timeout=900, simulate='num=150', depth=40)
        rep.add_tlc(res, 'Sampler.tla/simulate_large')
        if res.violated:
            rep.violation('spec:simulate:%s' % res.violated,
                          'Sampler.tla (simulation, larger constants) violates %s' % res.violated,
                          dict(tlc_out=res.out[-4000:]))
    return rep


def gen_histories(n, length, seed, scratch, has_file, budgets=('zero', 'one', 'bm1', 'bp1', 'b5', 'b15', 'inf'),
                  observers=OBSERVERS):
    """Histories sampled by TLC from Driver.tla."""
    cfg = os.path.join(scratch, 'Driver_%d_%d.cfg' % (length, seed))
    tlc.write_cfg(cfg, spec='Spec', constants=dict(MaxLen=length, HasFile=bool(has_file),
                                                   Budgets=set(budgets), Observers=set(observers)),
                  invariants=['Emit'])
    res = tlc.run_tlc('Driver', cfg, workers=1, simulate='num=%d' % n, depth=length + 1,
                      seed=seed, timeout=120)
    groups = {}
    for line in res.prints:
        v = tlc.parse_tla(line)
        if v and v[0] == '@@H':
            # simulation prints all siblings of the last step: keep one per distinct prefix
            groups.setdefault(json.dumps(v[1][:-1], sort_keys=True), []).append(v[1])
    rnd = random.Random(seed)
    out = [rnd.choice(g) for _, g in sorted(groups.items())]
    return out[:n], res


def history_to_cmds(h, n_batch, n_eff_small=8, n_eff_large=60):
    """Driver.tla command records -> history.run_history commands."""
    cmds = []
    for c in h:
        op, arg = c['op'], c['arg']
        if op == 'run':
            b = arg['budget']
            kw = dict(n_shell=int(arg['nShell']), discard_exploration=bool(arg['discard']),
                      n_eff=n_eff_small if arg.get('nEff', 'large') == 'small' else n_eff_large)
            if arg['timeout0']:
                kw['timeout'] = 0.0
            if b == 'zero':
                kw['n_like_rel'] = 0
            elif b == 'one':
                kw['n_like_rel'] = 1
            elif b == 'bm1':
                kw['n_like_rel'] = max(1, n_batch - 1)
            elif b == 'bp1':
                kw['n_like_rel'] = n_batch + 1
            elif b == 'b5':
                kw['n_like_rel'] = 5 * n_batch
            elif b == 'b15':
                kw['n_like_rel'] = 15 * n_batch
            else:
                kw['n_like_rel'] = 90 * n_batch        # "inf": bounded for cost, large enough to converge
            cmds.append(['run', kw])
        elif op == 'toggle':
            cmds.append(['toggle', True if arg == 'T' else (False if arg == 'F' else 'yes')])
        elif op == 'observe':
            cmds.append(['observe', arg])
        elif op == 'posterior':
            cmds.append(['posterior'])
        elif op == 'resume':
            cmds.append(['resume'])
    return cmds


FULL = [['run', dict(n_eff=60, n_like_rel=150 * 4, discard_exploration=True)], ['posterior'],
        ['toggle', False], ['posterior']]


def R(budget='inf', n_shell=1, n_eff='large', discard=False, timeout0=False):
    return dict(op='run', arg=dict(budget=budget, nShell=n_shell, nEff=n_eff, discard=discard, timeout0=timeout0))


def T(v):
    return dict(op='toggle', arg=v)


P = dict(op='posterior', arg='')
RES = dict(op='resume', arg='')


def O(a):
    return dict(op='observe', arg=a)


# Hand-written Driver.tla behaviours (each is a behaviour of the spec: same command alphabet) that put commands
# at the boundaries the properties single out: toggles before / right after the end of exploration, several run()
# calls inside the sampling phase, resumes in both phases, view switched by attribute vs by run() argument.
SCENARIOS = [
    [R('b5'), T('T'), R('inf', discard=True), P, T('F'), P, T('T'), P],
    [R('b5', discard=True), T('F'), R('inf', n_eff='small'), T('T'), R('b5', n_shell=6), P, R('inf', n_shell=6), P],
    [R('inf', n_eff='small', discard=True), R('bp1', discard=True), R('b5', n_shell=6, discard=True), P, T('F'), P],
    [R('inf', n_eff='small'), T('T'), R('b5', n_shell=25), R('inf', n_shell=25), P, T('F'), T('T'), P],
    [R('b5'), RES, T('T'), R('inf', n_eff='small', discard=True), RES, R('b5', n_shell=6, discard=True), RES, T('F'), P],
    [R('inf', n_eff='small', discard=True), RES, R('inf', n_shell=6, discard=True), T('bad'), P, O('occupation')],
    [R('zero'), R('one'), R('bm1'), T('T'), T('F'), R('inf', discard=True), R('one', n_shell=25, discard=True), P],
    [R('inf', timeout0=True), T('T'), R('inf', n_eff='small', discard=False), P, R('bp1', n_shell=25), P],
    # resumes in the middle of exploration, between a bound insertion and the next one (transfer candidates alive)
    [R('b15'), RES, R('b5'), RES, R('b5'), RES, R('b15'), RES, R('inf', discard=True), P],
    [R('b15', discard=True), R('b15'), RES, P, R('b15'), O('occupation'), RES, R('inf', n_eff='small'), P],
]


def scenario_configs(seed, filepath=True):
    kinds = ['gauss', 'two', 'plateau', 'wrap', 'ring', 'gauss', 'plateau', 'two', 'gauss', 'two']
    blobs = ['none', 'float', 'multi', 'int', 'none', 'array', 'none', 'struct', 'multi', 'float']
    cfgs = []
    for i, h in enumerate(SCENARIOS):
        nb = [4, 5, 2, 4, 4, 3, 4, 5, 4, 3][i]
        c = dict(kind=kinds[i], blob=blobs[i], n_batch=nb, n_live=16, n_networks=1 if i in (1, 4) else 0,
                 seed=300 + seed * 11 + i, mseed=seed, filepath=filepath, n_points_min=4, history=history_to_cmds(h, nb))
        if c['kind'] == 'wrap':
            c['periodic'] = [0]
        cfgs.append(c)
    # many bounds (fine likelihood levels, tiny live set) with resumes while more than ten bounds exist:
    # per-bound file groups bound_10, bound_11 ... sort before bound_2 by name
    h = [R('b15'), RES, R('b15'), RES, R('b15'), RES, R('inf', n_eff='small'), RES, R('b5', n_shell=6), RES, P]
    cfgs.append(dict(kind='two', K=32, n_live=10, n_update=1, n_batch=2, n_points_min=4, seed=3, mseed=0, filepath=filepath,
                     blob='int', history=history_to_cmds(h, 2)))
    return cfgs


def base_matrix(seed):
    """Configuration matrix (quick tier): one entry per feature the properties quantify over."""
    s = seed
    return [
        dict(kind='gauss', seed=11 + s, mseed=s),
        dict(kind='plateau', blob='float', seed=12 + s, mseed=s),
        dict(kind='two', n_networks=1, blob='multi', seed=13 + s, mseed=s),
        dict(kind='wrap', periodic=[0], seed=14 + s, mseed=s, blob='int'),
        dict(kind='funnel', n_dim=3, n_points_min=5, seed=15 + s, mseed=s),
        dict(kind='ring', n_networks=1, seed=16 + s, mseed=s, blob='f32'),
        dict(kind='gauss', prior='inplace', vectorized=True, blob='int', seed=17 + s, mseed=s),
        dict(kind='two', prior='Prior', blob='array', seed=18 + s, mseed=s),
        dict(kind='gauss', n_batch=1, n_live=10, blob='float', seed=19 + s, mseed=s, n_points_min=3),
        dict(kind='plateau', pool=[None, 2], seed=20 + s, mseed=s, n_networks=1),
        dict(kind='gauss', pool=2, n_batch=4, seed=21 + s, mseed=s, blob='multi'),
        dict(kind='two', prior='PriorArr', vectorized=True, blob='struct', periodic=[0, 1], seed=22 + s, mseed=s),
        dict(kind='gauss', n_batch=2, n_live=12, n_update=5, n_like_new_bound=30, blob='bool2', seed=23 + s,
             mseed=s, n_points_min=3),
        dict(kind='wrap', periodic=[0], n_networks=2, blob='bytes', prior='affine', seed=24 + s, mseed=s),
        dict(kind='gauss', prior='Prior', vectorized=True, blob='float', n_batch=5, seed=25 + s, mseed=s),   # dict + vectorised
        # likelihood pool of three in-process workers with a batch size that is not a multiple of three
        dict(kind='two', pool='scripted3', n_batch=4, blob='int', seed=26 + s, mseed=s),
    ]


def bulk_configs(seed):
    """Long runs validated as a SNAPSHOT (only the final state is projected; TLC evaluates every state invariant on
    it): sampler pool whose per-bound proposal cache is refilled several times."""
    return [dict(kind='gauss', n_batch=50, n_live=40, n_points_min=6, pool=[None, 2], blob='int', seed=27 + seed, mseed=seed,
                 snapshot_only=True,
                 history=[['run', dict(n_eff=200, n_like_rel=16000, n_shell=2800, discard_exploration=False)]]),
            # with a checkpoint file and bounds that reject (networks): per-bound caches are drained and refilled while
            # incremental updates are written after every batch
            dict(kind='ring', n_batch=25, n_live=40, n_points_min=6, n_networks=1, blob='float', seed=28 + seed, mseed=seed,
                 snapshot_only=True, filepath=True,
                 history=[['run', dict(n_eff=200, n_like_rel=9000, n_shell=1500, discard_exploration=True)]])]


def gen_worlds(n, seed, scratch, n_cells=6, levels=(0, 1, 2, 3), n_bounds=3):
    """Worlds sampled by TLC from CellWorld.tla."""
    cfg = os.path.join(scratch, 'CellWorld_%d.cfg' % seed)
    tlc.write_cfg(cfg, spec='Spec', constants=dict(NCells=n_cells, Levels=set(levels), NBounds=n_bounds),
                  invariants=['Emit'])
    res = tlc.run_tlc('CellWorld', cfg, workers=1, simulate='num=%d' % (3 * n), depth=n_cells + n_bounds + 1,
                      seed=seed, timeout=120)
    worlds, seen = [], set()
    for line in res.prints:
        v = tlc.parse_tla(line)
        if v and v[0] == '@@W':
            w = dict(lv=v[1], extra=[sorted(x[1]) for x in v[2]], drop=[sorted(x[1]) for x in v[3]])
            key = json.dumps(w, sort_keys=True)
            if key not in seen:
                seen.add(key)
                worlds.append(w)
    rnd = random.Random(seed)
    rnd.shuffle(worlds)
    return worlds[:n], res


def cellworld_configs(seed, scratch, n):
    worlds, res = gen_worlds(n, seed + 3, scratch)
    cfgs = []
    for i, w in enumerate(worlds):
        hist = [['run', dict(n_eff=25, n_like_rel=150, discard_exploration=bool(i % 2), n_shell=3, f_live=[0.5, 0.2, 0.8][i % 3])],
                ['posterior'], ['toggle', not bool(i % 2)], ['run', dict(n_eff=40, n_like_rel=45, n_shell=6, f_live=0.5)],
                ['posterior']]
        cfgs.append(dict(kind='cells', K=3, world=w, n_live=[4, 6, 8][i % 3], n_batch=[2, 3, 1][i % 3], n_update=3,
                         n_like_new_bound=12, n_points_min=3, seed=500 + seed * 13 + i, mseed=seed, history=hist,
                         blob=['none', 'int', 'multi'][i % 3]))
    return cfgs, res


def resume_every_batch_configs(seed, scratch):
    """Histories that construct a NEW sampler from the checkpoint after every single batch (traced, so every
    Resume step and everything after it is validated), on geometries where transfer candidates stay alive for
    several batches: a scripted non-nested world and the funnel."""
    worlds, res = gen_worlds(2, seed + 17, scratch)
    hist = []
    for k in range(28):
        hist += [['run', dict(n_eff=30, n_like_rel=1, discard_exploration=True, n_shell=3, f_live=0.3)], ['resume']]
    hist += [['run', dict(n_eff=30, n_like_rel=40, discard_exploration=True, n_shell=3, f_live=0.3)], ['posterior']]
    cfgs = [dict(kind='cells', K=3, world=w, n_live=6, n_batch=2, n_update=3, n_like_new_bound=10, n_points_min=3,
                 seed=700 + seed * 3 + i, mseed=seed, history=hist, blob=['multi', 'int'][i % 2], filepath=True)
            for i, w in enumerate(worlds)]
    cfgs.append(dict(kind='funnel', n_dim=2, n_live=24, n_batch=3, n_points_min=4, seed=710 + seed, mseed=seed, blob='multi',
                     filepath=True, history=[x for k in range(40) for x in (['run', dict(n_eff=40, n_like_rel=1, discard_exploration=False)], ['resume'])]
                     + [['posterior']]))
    return cfgs, res


def _job(args):
    cfg, path = args
    r = history.run_history(cfg)
    history.write_trace(r['events'], path)
    return dict(cfg=cfg, path=path, n=len(r['events']), info=r['info'])


def _val(job):
    try:
        v = validate.validate(job['path'], history.constants(job['cfg']), job['n'])
        return job, v, None
    except tlc.TLCError as e:
        return job, None, str(e)


def run_and_validate(rep, prop, cfgs, scratch, tag=''):
    """Execute configurations on the real code, validate the logs with TLC, scope failures to prop."""
    jobs = [(c, os.path.join(scratch, 'trace_%s%d.json' % (tag, i))) for i, c in enumerate(cfgs)]
    results = common.pmap(_job, jobs)
    vals = common.tmap(_val, results, workers=common.NCPU)
    machinery = []
    for job, v, err in vals:
        info = job['info']
        cfgs_ = job['cfg']
        if err is not None:
            machinery.append(err)
            continue
        rep.coverage['transitions'] += v.steps
        rep.coverage['states'] += v.states
        mine = v.for_property(prop)
        key_base = _cfg_key(cfgs_)
        if info.get('error'):
            # the code under test raised inside a history: judged by the property checks that own that call site
            handled = _exception_verdict(rep, prop, cfgs_, info)
            if not handled:
                rep.info('NOTE exception in history (not scoped to %s): %s' % (prop, info['error']))
        if mine:
            st, names = mine[0]
            ev = _event_at(job['path'], st)
            rep.violation('%s:%s' % (key_base, '+'.join(sorted(set(n for _, ns in mine for n in ns)))),
                          'trace step %d (%s) fails %s [config %s]' % (st, ev, names, json.dumps(cfgs_, sort_keys=True)),
                          dict(cfg=cfgs_, step=st, failing=mine[:10], events=info.get('event_names')))
        else:
            rep.coverage['traces_validated_against_impl'] += 1
        for st, names in v.divergences():
            rep.divergence('clause=%s step=%d config=%s' % (','.join(names), st, key_base))
        others = sorted(set(n for _, ns in v.fails for n in ns if validate.TAGS.get(n) and prop not in validate.TAGS[n]))
        if others:
            rep.info('OTHER-PROPERTY items failing in %s: %s' % (key_base, others))
        rep.sample(dict(config=cfgs_, events=len(info.get('event_names', [])), n_like=info.get('n_like'),
                        returns=info.get('returns'),
                        first_events=info.get('event_names', [])[:8],
                        failing_items=sorted(v.names())), cap=4)
    if machinery:
        raise tlc.TLCError('\n'.join(machinery[:3]))
    return vals


def _cfg_key(c):
    keys = ['kind', 'n_dim', 'blob', 'prior', 'vectorized', 'n_batch', 'n_networks', 'periodic', 'pool']
    return ','.join('%s=%s' % (k, c[k]) for k in keys if k in c)


def _event_at(path, st):
    try:
        ev = json.load(open(path))[st - 1]['event']
        return {k: v for k, v in ev.items() if not isinstance(v, list)}
    except Exception:
        return '?'


def _exception_verdict(rep, prop, cfg, info):
    """An exception raised by nautilus inside a legal history.  None of the sampler properties says "never
    raises", so an exception is a verdict only where the property's own mechanism is the raising site: C03 names
    evaluate_likelihood / add_samples / posterior for every batch size and blob kind.  Everything else is a NOTE
    (the steps logged before the exception are validated as usual)."""
    err = info['error']
    tb = info.get('traceback') or ''
    c = history.full(cfg)
    frames = [ln for ln in tb.splitlines() if 'nautilus/sampler.py' in ln]
    inner = frames[-1] if frames else ''
    if prop == 'C03' and c['blob'] != 'none' and any(f in inner for f in ('in evaluate_likelihood', 'in add_samples',
                                                                         'in posterior', 'in add_bound')):
        rep.violation('raise:n_batch=%s,blob=%s:%s' % (c['n_batch'], c['blob'], err.split(':')[0]),
                      'legal configuration raises %s [config %s]' % (err, json.dumps(cfg, sort_keys=True)),
                      dict(cfg=cfg, error=err, traceback=tb))
        return True
    return False


def histories_matrix(seed, scratch, n, length, filepath=True):
    hs, res = gen_histories(n, length, seed + 1, scratch, filepath)
    kinds = ['gauss', 'two', 'plateau', 'wrap', 'ring', 'funnel']
    blobs = ['none', 'float', 'multi', 'int']
    cfgs = []
    rnd = random.Random(seed)
    for i, h in enumerate(hs):
        nb = rnd.choice([2, 4, 5])
        c = dict(kind=kinds[i % len(kinds)], blob=blobs[i % len(blobs)], n_batch=nb, n_live=16,
                 n_networks=1 if i % 5 == 0 else 0, seed=100 + seed * 7 + i, mseed=seed, filepath=filepath,
                 n_points_min=4, history=history_to_cmds(h, nb))
        if c['kind'] == 'wrap':
            c['periodic'] = [0]
        if c['kind'] == 'funnel':
            c['n_dim'] = 3
            c['n_points_min'] = 5
        cfgs.append(c)
    return cfgs, res


def check(prop, tier, seed):
    rep = common.Report(prop, tier, seed)
    scratch = common.scratch('samp_')
    try:
        model_check(rep, tier, scratch)
        cfgs = [dict(c, history=FULL) for c in base_matrix(seed)]
        if prop == 'C03':
            cfgs += [dict(kind='gauss', n_batch=1, n_live=10, blob=b, seed=40 + seed + i, mseed=seed, n_points_min=3,
                          history=FULL) for i, b in enumerate(['multi', 'array', 'int'])]
            cfgs += [dict(kind='two', n_batch=1, n_live=10, blob='float', vectorized=True, seed=44 + seed,
                          mseed=seed, n_points_min=3, history=FULL)]
        nh = 16 if tier == 'quick' else 160
        hc, res = histories_matrix(seed, scratch, nh, 5 if tier == 'quick' else 7)
        rep.add_tlc(res, 'Driver.tla/simulate')
        cfgs += hc
        cfgs += scenario_configs(seed)
        wc, wres = cellworld_configs(seed, scratch, 10 if tier == 'quick' else 120)
        rep.add_tlc(wres, 'CellWorld.tla/simulate')
        cfgs += wc
        cfgs += bulk_configs(seed)
        rc, rres = resume_every_batch_configs(seed, scratch)
        rep.add_tlc(rres, 'CellWorld.tla/simulate (resume worlds)')
        cfgs += rc
        if tier == 'thorough':
            for r in range(1, 8):
                cfgs += [dict(c, history=FULL) for c in base_matrix(seed + 100 * r)]
        run_and_validate(rep, prop, cfgs, scratch)
        rep.coverage['configs'] = len(cfgs)
        rep.assumptions += [
            'likelihoods, point sets and seeds are sampled from the harness families (not enumerated)',
            'bound.contains is a deterministic function of the point',
            'projection layer harness/traced.py (read-only) maps concrete to abstract state faithfully']
    finally:
        common.rmtree(scratch)
    return rep.finish()
