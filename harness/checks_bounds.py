"""C13 (union well-formed under any operation order), C07 (bounds are sound), C09 (write/read round trip)."""
import json
import os

from . import common, tlc
from . import bounds_ops as bo

BTAGS = {
    'RecordsAligned': {'C13'}, 'Partition': {'C13'}, 'NonEmpty': {'C13'}, 'VolumeRecords': {'C13'},
    'SplitOK_Shape': {'C13'}, 'SplitOK_Survivors': {'C13'}, 'SplitOK_Partition': {'C13'},
    'SplitOK_ChildMin': {'C13'}, 'SplitOK_Shrinks': {'C13'}, 'SplitOK_ShrinksExact': {'C13'}, 'SplitOK_Lens': {'C13'},
    'SplitRefused_Frame': {'C13'}, 'TrimOK_Shape': {'C13'}, 'TrimOK_Flags': {'C13'}, 'TrimOK_Trimmed': {'C13'},
    'TrimOK_Lens': {'C13'}, 'TrimRefused_Frame': {'C13'}, 'Sample_Frame': {'C13'}, 'LogV_Frame': {'C13'},
    'NoRaise': {'C13', 'C07', 'C09'},
    'Enclosed': {'C07'}, 'SampleInside': {'C07'}, 'SampleInCube': {'C07'}, 'InsideOuter': {'C07'},
    'Sample_Count': {'C07', 'C13'},
    'RT_Raise': {'C09'}, 'RT_Contains': {'C09'}, 'RT_Volume': {'C09'}, 'RT_Stream': {'C09'},
    'RT_UpdContains': {'C09'}, 'RT_UpdVolume': {'C09'}, 'RT_UpdStream': {'C09'}, 'RT_Frame': {'C09'},
    # conformance detail
    'SplitOK_ChildBlock': set(), 'SplitOK_LargestFirst': set(), 'SplitRefused_AllBlocked': set(),
    'TrimOK_LowestDensity': set(), 'SplitOK_Reset': set(), 'TrimOK_Reset': set(), 'Sample_Counters': set(),
    'LogV_Counters': set(), 'CountersSane': set(), 'BlockSound': {'C13'}, 'SampleObj_Frame': set(),
    'NB_Counters': set(), 'NoSuchAction': set(),
}


def model_check_bounds(rep, tier, scratch):
    for label, spec, pts, should_hold in (('ops', 'Spec', 7 if tier == 'quick' else 8, True),
                                          ('neg_trim_forgets_flag', 'SpecNeg', 6, False)):
        cfg = os.path.join(scratch, 'Bounds_%s.cfg' % label)
        tlc.write_cfg(cfg, spec=spec, constants=dict(NPmin=2, AllPts=set(range(1, pts + 1)), Slack=0, MaxVol=4),
                      invariants=['RecordsAligned', 'Partition', 'NonEmpty', 'CountersSane', 'BlockSound'],
                      properties=['StepsConform'])
        res = tlc.run_tlc('Bounds', cfg, workers=common.NCPU, timeout=1200)
        rep.add_tlc(res, 'Bounds.tla/' + label)
        if should_hold and not res.ok:
            rep.violation('spec:Bounds:%s' % res.violated, 'Bounds.tla violates %s' % res.violated, dict(out=res.out[-3000:]))
        if not should_hold:
            if res.ok:
                raise tlc.TLCError('negative configuration %s not rejected' % label)
            rep.notes.append('negative configuration %s rejected as expected (%s)' % (label, res.violated))


def union_jobs(seed, tier, depth, roundtrip=False, ops=None):
    ops = ops or bo.OPS
    s = seed
    jobs = [
        ('clusters2', 2, 94, s + 1, 'Ellipsoid', True, 4, depth, ops, roundtrip),
        ('three', 2, 90, s + 2, 'UnitCubeEllipsoidMixture', True, 4, depth, ops, roundtrip),
        ('blob', 3, 80, s + 3, 'Ellipsoid', True, 5, depth, ops, roundtrip),
        ('banana', 2, 100, s + 4, 'Ellipsoid', False, 4, depth, ops, roundtrip),
        ('elongated', 3, 90, s + 5, 'UnitCubeEllipsoidMixture', True, 5, depth, ops, roundtrip),
        ('corner', 2, 80, s + 6, 'UnitCubeEllipsoidMixture', True, 4, depth, ops, roundtrip),
        ('clusters2', 3, 120, s + 7, 'Ellipsoid', False, 6, depth, ops, roundtrip),
        ('faces', 3, 80, s + 8, 'Ellipsoid', True, 4, depth, ops, roundtrip),
        ('compact', 2, 80, s + 17, 'Ellipsoid', True, 4, depth, ops, roundtrip),
        ('onface', 3, 90, s + 18, 'UnitCubeEllipsoidMixture', True, 5, depth, ops, roundtrip),
        ('topup', 2, 11, s + 19, 'Ellipsoid', True, 4, depth, ops, roundtrip),
        ('topup', 3, 13, s + 20, 'UnitCubeEllipsoidMixture', True, 5, depth, ops, roundtrip),
    ]
    if tier == 'thorough':
        jobs += [
            ('three', 4, 150, s + 9, 'Ellipsoid', True, 8, depth, ops, roundtrip),
            ('clusters2', 5, 160, s + 10, 'UnitCubeEllipsoidMixture', True, 8, depth, ops, roundtrip),
            ('banana', 3, 120, s + 11, 'UnitCubeEllipsoidMixture', False, 5, depth, ops, roundtrip),
            ('blob', 2, 40, s + 12, 'Ellipsoid', True, 3, depth, ops, roundtrip),
            ('three', 2, 30, s + 13, 'Ellipsoid', True, 4, depth, ops, roundtrip),
            ('corner', 3, 100, s + 14, 'Ellipsoid', True, 5, depth, ops, roundtrip),
            ('elongated', 2, 70, s + 15, 'Ellipsoid', True, 3, depth, ops, roundtrip),
            ('clusters2', 2, 60, s + 16, 'UnitCubeEllipsoidMixture', False, 4, depth, ops, roundtrip),
        ]
    return jobs


def object_specs(seed, tier):
    s = seed
    specs = [
        dict(cls='UnitCube', kind='blob', n_dim=3, n=50, seed=s + 1),
        dict(cls='Ellipsoid', kind='banana', n_dim=2, n=80, seed=s + 2, enlarge=1.0001),
        dict(cls='Ellipsoid', kind='elongated', n_dim=5, n=120, seed=s + 3, enlarge=1.1),
        dict(cls='Ellipsoid', kind='corner', n_dim=1, n=40, seed=s + 21, enlarge=2.0),
        dict(cls='Mixture', kind='faces', n_dim=3, n=80, seed=s + 4),
        dict(cls='Mixture', kind='corner', n_dim=4, n=100, seed=s + 5, enlarge=2.0),
        dict(cls='Mixture', kind='onface', n_dim=3, n=90, seed=s + 22),
        dict(cls='NautilusBound', kind='onface', n_dim=3, n=200, seed=s + 23, n_networks=0, npm=6),
        dict(cls='NeuralBound', kind='blob', n_dim=2, n=200, seed=s + 6, n_networks=1),
        dict(cls='NeuralBound', kind='elongated', n_dim=3, n=200, seed=s + 7, n_networks=0),
        dict(cls='NautilusBound', kind='clusters2', n_dim=2, n=200, seed=s + 8, n_networks=0),
        dict(cls='NautilusBound', kind='three', n_dim=3, n=240, seed=s + 9, n_networks=1, periodic=[0]),
        dict(cls='NautilusBound', kind='blob', n_dim=2, n=200, seed=s + 10, n_networks=1, pool=2),
        dict(cls='NautilusBound', kind='blob', n_dim=2, n=200, seed=s + 11, n_networks=0, periodic=[0, 1], pool=2),
        dict(cls='NautilusBound', kind='banana', n_dim=2, n=300, seed=s + 12, n_networks=2, enlarge=1.3),
        dict(cls='NautilusBound', kind='blob', n_dim=2, n=200, seed=s + 24, n_networks=1, nnkw=dict(activation='tanh')),
        dict(cls='NeuralBound', kind='blob', n_dim=3, n=200, seed=s + 25, n_networks=2, nnkw=dict(activation='logistic')),
    ]
    if tier == 'thorough':
        for r in range(1, 6):
            for d in (2, 3, 5, 8):
                specs += [
                    dict(cls='Ellipsoid', kind=bo.POINTSETS[(r + d) % 7], n_dim=d, n=30 * d, seed=s + 100 * r + d,
                         enlarge=[1.0001, 1.1, 2.0][r % 3]),
                    dict(cls='Mixture', kind=bo.POINTSETS[(r + d + 1) % 7], n_dim=d, n=30 * d, seed=s + 100 * r + d + 20,
                         enlarge=[1.0001, 1.1, 2.0][(r + 1) % 3]),
                    dict(cls='NautilusBound', kind=bo.POINTSETS[(r + d + 2) % 7], n_dim=d, n=60 * d,
                         seed=s + 100 * r + d + 40, n_networks=r % 3, periodic=[0] if (r + d) % 2 else None,
                         pool=2 if (r + d) % 3 == 0 else None, npm=d + 3),
                ]
                specs += [dict(cls='NeuralBound', kind='blob', n_dim=d, n=80 * d, seed=s + 100 * r + d + 60,
                               n_networks=r % 2)]
    return specs


def _union_walk_and_validate(job):
    r = bo.walk_union(job)
    return r


def _object_walk(spec):
    return bo.walk_object(spec)


def insitu_configs(seed, tier):
    """Sampler runs whose bound construction is traced (two unions per NautilusBound)."""
    s = seed
    c = [dict(kind='two', n_live=60, n_batch=10, n_points_min=6, seed=91 + s, mseed=s, split_threshold=1,
              runkw=dict(n_eff=80, discard_exploration=False)),
         dict(kind='ring', n_live=60, n_batch=10, n_points_min=5, seed=92 + s, mseed=s, split_threshold=1,
              runkw=dict(n_eff=80, discard_exploration=False)),
         dict(kind='wrap', n_live=50, n_batch=10, n_points_min=5, seed=93 + s, mseed=s, periodic=[0], split_threshold=2,
              runkw=dict(n_eff=60, discard_exploration=True)),
         dict(kind='funnel', n_dim=3, n_live=80, n_batch=10, n_points_min=6, seed=94 + s, mseed=s, split_threshold=1,
              runkw=dict(n_eff=60, discard_exploration=True)),
         dict(kind='plateau', n_live=50, n_batch=10, n_points_min=5, seed=95 + s, mseed=s, split_threshold=5, n_networks=1,
              runkw=dict(n_eff=60, discard_exploration=True))]
    if tier == 'thorough':
        for r in range(1, 5):
            c += [dict(kind=k, n_dim=d, n_live=40 + 20 * r, n_batch=10, n_points_min=d + 3, seed=100 * r + s + i, mseed=s + r,
                       split_threshold=[1, 3, 10][(r + i) % 3], runkw=dict(n_eff=80, discard_exploration=bool(i % 2)))
                  for i, (k, d) in enumerate([('two', 2), ('ring', 2), ('gauss', 4), ('funnel', 3), ('two', 3)])]
    return c


def _insitu(cfg):
    from . import union_tracer
    r = union_tracer.sampler_union_log(cfg)
    r['job'] = dict(r['job'], npm=cfg['n_points_min'], cls='in-situ unions of a sampler run')
    return r


def run_walks(rep, prop, ujobs, ospecs, scratch, insitu=(), many=()):
    results = []
    if many:
        results += [('object', r) for r in common.pmap(bo.many_members, list(many))]
    if insitu:
        results += [('object', r) for r in common.pmap(_insitu, list(insitu))]
    if ujobs:
        results += [('union', r) for r in common.pmap(_union_walk_and_validate, ujobs)]
    if ospecs:
        results += [('object', r) for r in common.pmap(_object_walk, ospecs)]

    def val(item):
        i, (kind, r) = item
        npm = r['job'][6] if kind == 'union' else (r['job']['npm'] if 'npm' in r['job'] else r['job']['n_dim'] + 3)
        try:
            fails, res = bo.validate(r['log'], scratch, '%s%d' % (kind, i), npm)
            return kind, r, fails, res, None
        except tlc.TLCError as e:
            return kind, r, None, None, str(e)
    vals = common.tmap(val, list(enumerate(results)))
    errs = [e for *_, e in vals if e]
    if errs:
        raise tlc.TLCError(errs[0])
    edges = 0
    for kind, r, fails, res, _ in vals:
        edges += r['edges']
        rep.coverage['transitions'] += len(r['log'])
        rep.coverage['states'] += res.states
        job = r['job']
        jkey = ('union:%s,%dD,%s,unit=%s' % (job[0], job[1], job[4], job[5])) if kind == 'union' else \
            ('%s:%s,%sD,nn=%s,periodic=%s,pool=%s' % (job['cls'], job['kind'], job.get('n_dim', 2), job.get('n_networks'),
                                                    job.get('periodic'), job.get('pool')))
        mine = [(st, [n for n in ns if prop in BTAGS.get(n, set())], node) for st, ns, node in fails
                if any(prop in BTAGS.get(n, set()) for n in ns)]
        if mine:
            st, names, node = mine[0]
            ev = r['log'][st - 1]['event']
            rep.violation('%s:%s' % (jkey, '+'.join(sorted(set(n for _, ns, _ in mine for n in ns)))),
                          'after operation sequence %s: %s fails (event %s); %d failing steps in this walk [job %s]' % (
                              node, names, {k: v for k, v in ev.items() if k != 'tb'}, len(mine), json.dumps(job)),
                          dict(kind=kind, job=job, node=node, failing=[(a, b, c) for a, b, c in mine[:20]]))
        else:
            rep.coverage['traces_validated_against_impl'] += 1
        for st, ns, node in fails:
            d = [n for n in ns if not BTAGS.get(n, set())]
            if d:
                rep.divergence('clause=%s after %s in %s' % (','.join(d), node, jkey))
        rep.sample(dict(job=job, edges=r['edges'], events=[e['event']['name'] for e in r['log'][:10]],
                        example_nodes=[e['node'] for e in r['log'][1:40:8]]), cap=4)
    rep.coverage['operation_edges_executed'] = edges
    return vals


def check_c13(prop, tier, seed):
    rep = common.Report(prop, tier, seed)
    scratch = common.scratch('c13_')
    try:
        model_check_bounds(rep, tier, scratch)
        depth = 4 if tier == 'quick' else 5
        run_walks(rep, prop, union_jobs(seed, tier, depth), [], scratch, insitu=insitu_configs(seed, tier))
        rep.coverage['exhaustive_over'] = 'all operation sequences over %s up to length %d per point set' % (bo.OPS, depth)
        rep.assumptions += ['point sets are sampled from seeded families; operation sequences are enumerated exhaustively']
    finally:
        common.rmtree(scratch)
    return rep.finish()


def check_c07(prop, tier, seed):
    rep = common.Report(prop, tier, seed)
    scratch = common.scratch('c07_')
    try:
        model_check_bounds(rep, tier, scratch)
        # depth 4 so that  split, sample, trim, sample  (stale proposals after a trim) is among the sequences
        depth = 4 if tier == 'quick' else 5
        run_walks(rep, prop, union_jobs(seed + 50, tier, depth, ops=['SplitT', 'Trim', 'Sample']),
                  object_specs(seed, tier), scratch)
        rep.assumptions += ['the oracle is the bound\'s own contains(): the property relates sample(), compute() and contains()',
                            'point sets sampled from seeded families (dimensions 1-8)']
    finally:
        common.rmtree(scratch)
    return rep.finish()


def check_c09(prop, tier, seed):
    rep = common.Report(prop, tier, seed)
    scratch = common.scratch('c09_')
    try:
        model_check_bounds(rep, tier, scratch)
        depth = 2 if tier == 'quick' else 3
        run_walks(rep, prop, union_jobs(seed + 80, tier, depth, roundtrip=True, ops=['SplitT', 'Trim', 'Sample', 'LogV']),
                  object_specs(seed + 30, tier), scratch,
                  many=[(2, 280, seed + 1, 'Ellipsoid', True), (3, 320, seed + 2, 'UnitCubeEllipsoidMixture', True),
                        (2, 300, seed + 3, 'Ellipsoid', False)])
        rep.assumptions += ['reader is given a generator in the same state as the writer\'s (cloned)',
                            'behaviour = contains() on 3500+ probe points, log_v, next 1400 samples']
    finally:
        common.rmtree(scratch)
    return rep.finish()
