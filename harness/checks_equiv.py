"""C11: determinism and invisibility of evaluation mode / pools / verbosity / checkpointing / observers."""
import json
import os

from . import common, tlc, equiv, checks_sampler


def completion_orders(rep, scratch, n_tasks, n_workers):
    """Evaluate.tla: InOrder under every completion order; returns the enumerated orders."""
    orders = []
    for rule, hold in (('bySubmission', True), ('unordered', False)):
        cfg = os.path.join(scratch, 'ev_%s.cfg' % rule)
        tlc.write_cfg(cfg, spec='Spec', constants=dict(NTasks=n_tasks, NWorkers=n_workers, Rule=rule),
                      invariants=['InOrder', 'RowPerPoint', 'CountExact', 'NoLeak'] + (['EmitOrders'] if hold else []))
        res = tlc.run_tlc('Evaluate', cfg, workers=1, timeout=600)
        rep.add_tlc(res, 'Evaluate.tla/' + rule)
        if hold:
            if not res.ok:
                rep.violation('spec:Evaluate:%s' % res.violated, 'Evaluate.tla violates %s' % res.violated,
                              dict(out=res.out[-2000:]))
            for line in res.prints:
                v = tlc.parse_tla(line)
                if v[0] == '@@O':
                    orders.append(v[1])
        elif res.ok:
            raise tlc.TLCError('negative rule "unordered" was not rejected')
    return orders


def check_c11(prop, tier, seed):
    rep = common.Report(prop, tier, seed)
    scratch = common.scratch('c11_')
    try:
        orders = completion_orders(rep, scratch, 4, 2)
        if tier == 'thorough':
            orders3 = completion_orders(rep, scratch, 4, 3)
            orders = orders + [o for o in orders3 if o not in orders]
        s = seed
        # smooth (un-quantised) likelihoods: a one-ulp difference in an argument must show in the digests
        bases = [dict(kind='gauss', seed=81 + s, mseed=s, n_batch=4, n_live=20, smooth=True),
                 dict(kind='two', seed=82 + s, mseed=s, n_batch=4, n_live=20, n_networks=1, blob='multi',
                      prior='affine'),
                 dict(kind='wrap', seed=83 + s, mseed=s, n_batch=4, n_live=20, periodic=[0], blob='float',
                      prior='Prior', smooth=True, runkw=dict(n_eff=50, discard_exploration=False, n_shell=8)),
                 dict(kind='ring', seed=87 + s, mseed=s, n_batch=4, n_live=20, prior='PriorArr', smooth=True),
                 # a likelihood that leaves one parameter unconstrained: the outer bounds become cube-ellipsoid mixtures
                 # with genuine cube dimensions (their proposals come from the inner UnitCube's generator)
                 dict(kind='plateau', n_dim=3, seed=89 + s, mseed=s, n_batch=4, n_live=30, n_points_min=6, smooth=True, blob='float'),
                 # sampler pool and thousands of proposals per bound: the pooled refill path draws worker seeds from
                 # the shared generator, so anything that changes WHEN a bound refills (e.g. writing a checkpoint)
                 # changes the result
                 dict(kind='gauss', seed=88 + s, mseed=s, n_batch=40, n_live=40, n_points_min=6, pool=[None, 2], smooth=True,
                      runkw=dict(n_shell=1500, n_eff=100, discard_exploration=True))]
        if tier == 'thorough':
            bases += [dict(kind='plateau', seed=84 + s, mseed=s, n_batch=4, n_live=20, blob='struct', n_networks=2),
                      dict(kind='ring', seed=85 + s, mseed=s, n_batch=4, n_live=24, prior='PriorArr'),
                      dict(kind='funnel', n_dim=3, n_points_min=5, seed=86 + s, mseed=s, n_batch=4, n_live=24,
                           blob='array', prior='inplace')]
        variants = [dict(name='same-again'),
                    dict(name='vectorized', vectorized=True),
                    dict(name='pool_l=1', pool=1),
                    dict(name='pool_l=2', pool=[2, None]),
                    dict(name='pool_l=3', pool=[3, None]),
                    dict(name='scripted-pool', orders=orders),
                    dict(name='scripted-pool-rev', orders=orders[::-1]),
                    dict(name='verbose', verbose=True),
                    dict(name='filepath', filepath=True),
                    dict(name='observers', observers=True),
                    dict(name='explicit-blobs-dtype', explicit_blobs_dtype=True),
                    dict(name='unsliced', slices=False)]
        dirs = []
        for bi, b in enumerate(bases):
            d = os.path.join(scratch, 'b%d' % bi)
            os.makedirs(d)
            dirs.append(d)
        refs = common.pmap(equiv.boundary_digests, [(b, dict(name='reference'), d) for b, d in zip(bases, dirs)])
        jobs = []
        for b, d, ref in zip(bases, dirs, refs):
            for v in variants:
                v2 = dict(v)
                if not v.get('slices', True) and not ref.get('done', True):
                    v2['n_like_cap'] = ref['final']['n_like']     # the sliced reference stopped at the boundary cap
                jobs.append((b, v2, d))
        vouts = common.pmap(equiv.boundary_digests, jobs)
        outs = []
        for bi in range(len(bases)):
            outs.append(refs[bi])
            outs += vouts[bi * len(variants):(bi + 1) * len(variants)]
        log, ids = [], {}
        per = len(variants) + 1
        for bi, b in enumerate(bases):
            ref = outs[bi * per]
            key = checks_sampler._cfg_key(b)
            if ref['error']:
                raise RuntimeError('reference run failed: %s' % ref['error'])
            for vi, v in enumerate(variants):
                var = outs[bi * per + 1 + vi]
                name = '%s|%s' % (key, v['name'])
                if var['error']:
                    rep.violation('%s:raises' % name, 'variant %s raises %s [base %s]' % (v['name'], var['error'], json.dumps(b)),
                                  dict(base=b, variant={k: x for k, x in v.items() if k != 'orders'}, tb=var.get('tb')))
                    continue
                if var.get('observer_changed_state_at'):
                    rep.violation('%s:observer' % name, 'a read-only accessor changed the essential state at boundary %d' %
                                  var['observer_changed_state_at'], dict(base=b))
                if v.get('slices', True):
                    log += equiv.pair_records(name, ref, var, ids)
                fa, fb = ref['final'], var['final']
                log.append(dict(pair=name + '|final', k=0, a=ids.setdefault(json.dumps(fa, sort_keys=True), len(ids) + 1),
                                b=ids.setdefault(json.dumps(fb, sort_keys=True), len(ids) + 1), lenA=1, lenB=1,
                                nlikeA=fa['n_like'], nlikeB=fb['n_like']))
                if 'scripted_calls' in var:
                    rep.coverage['scripted_pool_batches'] = rep.coverage.get('scripted_pool_batches', 0) + var['scripted_calls']
            rep.sample(dict(base=b, boundaries=len(ref['digests']), variants=[v['name'] for v in variants],
                            completion_orders=orders[:4]), cap=3)
        fails, res = equiv.validate(log, scratch)
        rep.coverage['transitions'] += len(log)
        rep.coverage['states'] += res.states
        seen = set()
        for st, names, pair, k in fails:
            if pair in seen:
                continue
            seen.add(pair)
            rep.violation('%s:%s' % (pair, '+'.join(names)),
                          'runs differ: pair %s first at boundary %d (%s)' % (pair, k, names), dict(pair=pair, boundary=k))
        rep.coverage['traces_validated_against_impl'] = len(bases) * len(variants) - len(seen)
        rep.coverage['pairs'] = len(bases) * len(variants)
        # observers placed by TLC-generated histories, validated against Sampler.tla (OB_Frame / OB_Digest)
        hc, hres = checks_sampler.histories_matrix(seed + 5, scratch, 10 if tier == 'quick' else 80, 6, filepath=False)
        rep.add_tlc(hres, 'Driver.tla/simulate')
        hc = [c for c in hc if any(cmd[0] in ('observe', 'posterior') for cmd in c['history'])]
        checks_sampler.run_and_validate(rep, prop, hc, scratch, tag='obs')
        rep.assumptions += ['essential state = everything the future of a run depends on (arrays, counters, bounds, generator)',
                            'pool sizes compared at equal batch size']
    finally:
        common.rmtree(scratch)
    return rep.finish()
