"""C11: same seed, same result, however the likelihood is evaluated or observed.

A reference run and variant runs (scalar/vectorised, likelihood pool sizes, scripted pool with
TLC-enumerated completion orders, verbose, checkpointing, observers between batches) are sliced batch
by batch; the complete essential state is digested at every boundary and the pairs go to Equiv.tla.
"""
import contextlib
import io
import json
import os
import warnings
import numpy as np

from . import common, tlc, ckpt
from .digest import digest
from nautilus import Sampler  # noqa: E402

OBS = ['log_z', 'n_eff', 'eta', 'f_live', 'log_v_live', 'posterior', 'occupation', 'deprecated', 'print_status',
       'discard_get']


class ScriptedPool:
    """A pool whose tasks complete in a prescribed order (1-based permutation of the submission order).
    map / imap return results in submission order, imap_unordered in completion order."""

    in_process = True          # tasks run in the calling process: likelihood calls can be counted

    def __init__(self, orders, size=2):
        self._processes = size
        self.orders = [list(o) for o in orders]
        self.k = 0
        self.calls = 0

    def _run(self, func, iterable):
        items = list(iterable)
        order = self.orders[self.k % len(self.orders)]
        self.k += 1
        self.calls += 1
        if sorted(order) != list(range(1, len(items) + 1)):
            order = list(range(len(items), 0, -1))             # other batch length: reverse order
        res = {}
        for i in order:
            res[i] = func(items[i - 1])
        return order, res

    def map(self, func, iterable):
        order, res = self._run(func, iterable)
        return [res[i] for i in sorted(res)]

    imap = map

    def imap_unordered(self, func, iterable):
        order, res = self._run(func, iterable)
        return [res[i] for i in order]

    def terminate(self):
        pass

    def join(self):
        pass


def observe(s, what):
    with warnings.catch_warnings():
        warnings.simplefilter('ignore')
        with np.errstate(all='ignore'):
            if what == 'log_z':
                s.log_z
            elif what == 'n_eff':
                s.n_eff
            elif what == 'eta':
                s.eta
            elif what == 'f_live':
                s.f_live
            elif what == 'log_v_live':
                # not one of the accessors C11 lists; defined for the exploration phase only (it raises
                # IndexError afterwards when exploration is discarded: shell_n counts visible rows only)
                if not s.explored:
                    s.log_v_live
            elif what == 'posterior':
                if sum(len(p) for p in s.points):
                    s.posterior()
            elif what == 'occupation':
                s.shell_bound_occupation()
            elif what == 'deprecated':
                s.evidence()
                s.effective_sample_size()
                s.asymptotic_sampling_efficiency()
            elif what == 'print_status':
                with contextlib.redirect_stdout(io.StringIO()):
                    s.print_status()
            elif what == 'discard_get':
                s.discard_exploration


def boundary_digests(args):
    """Run one variant sliced batch by batch; returns list of (n_like, digest) per boundary."""
    cfg, variant, d = args
    c = dict(cfg)
    c['vectorized'] = bool(variant.get('vectorized', cfg.get('vectorized', False)))
    model = ckpt.model_of(c)
    path = None
    if variant.get('filepath'):
        path = os.path.join(d, 'v_%d.h5' % os.getpid())
        for p in (path, path + '.tmp'):
            if os.path.exists(p):
                os.unlink(p)
    base_pool = cfg.get('pool')
    pool_s = base_pool[-1] if isinstance(base_pool, (list, tuple)) else None       # sampler pool of the base: kept
    if 'pool' in variant:
        vp = variant['pool']
        c['pool'] = [vp[0] if isinstance(vp, (list, tuple)) else vp, pool_s]
    s = None
    out = dict(variant=variant.get('name'), digests=[], error=None)
    if variant.get('explicit_blobs_dtype') and model.blob in ('float', 'int', 'f32'):
        # the blob dtype given explicitly instead of inferred from the first blob: must be invisible
        _orig_kw = model.sampler_kwargs
        _dt = dict(float=np.float64, int=np.int64, f32=np.float32)[model.blob]
        model.sampler_kwargs = lambda: dict(_orig_kw(), blobs_dtype=_dt)
    try:
        if variant.get('orders'):
            sp = ScriptedPool(variant['orders'])
            c['pool'] = [None, pool_s]
            s = ckpt.make(c, model, path, resume=False, cls=Sampler)
            from nautilus.pool import NautilusPool
            s.pool_l = NautilusPool(sp)
            out['scripted'] = sp
        else:
            s = ckpt.make(c, model, path, resume=False, cls=Sampler)
        runkw = dict(c.get('runkw') or dict(n_eff=60, discard_exploration=True))
        if variant.get('verbose'):
            runkw['verbose'] = True
        done, k = False, 0
        with warnings.catch_warnings(), common.cpu_limit(1500):
            warnings.simplefilter('ignore')
            while not done and k < variant.get('max_boundaries', 400):
                n0 = int(s.n_like)
                if variant.get('slices', True):
                    lim = n0 + 1
                else:
                    # one call; if the sliced reference was cut off by the boundary cap, stop at the same count
                    lim = variant.get('n_like_cap') or np.inf
                with contextlib.redirect_stdout(io.StringIO()):
                    done = bool(s.run(n_like_max=lim, **runkw))
                if int(s.n_like) == n0:
                    break
                if variant.get('observers'):
                    before = digest(ckpt.parts(s))
                    for j in range(3):
                        observe(s, OBS[(k * 3 + j) % len(OBS)])
                    if digest(ckpt.parts(s)) != before:
                        out['observer_changed_state_at'] = k + 1
                k += 1
                out['digests'].append((int(s.n_like), digest(ckpt.parts(s))))
        out['done'] = bool(done)
        out['final'] = dict(n_like=int(s.n_like), log_z=repr(s.log_z), n_eff=repr(float(s.n_eff)),
                            post=digest([np.asarray(x) for x in s.posterior()]))
        if 'scripted' in out:
            out['scripted_calls'] = out.pop('scripted').calls
    except Exception as e:
        import traceback
        out['error'] = '%s: %s' % (type(e).__name__, e)
        out['tb'] = traceback.format_exc()[-1000:]
        out.pop('scripted', None)
    finally:
        if s is not None:
            ckpt._close(s)
        if path:
            for p in (path, path + '.tmp'):
                if os.path.exists(p):
                    os.unlink(p)
    return out


def pair_records(name, ref, var, ids):
    recs = []
    a, b = ref['digests'], var['digests']
    for k in range(max(len(a), len(b))):
        da = a[k] if k < len(a) else (-1, 'none-a')
        db = b[k] if k < len(b) else (-1, 'none-b')
        recs.append(dict(pair=name, k=k + 1, a=ids.setdefault(da[1], len(ids) + 1), b=ids.setdefault(db[1], len(ids) + 1),
                         lenA=len(a), lenB=len(b), nlikeA=da[0], nlikeB=db[0]))
    return recs


def validate(log, scratch, tag='eq'):
    path = os.path.join(scratch, 'equiv_%s.json' % tag)
    json.dump(log, open(path, 'w'))
    cfg = path + '.cfg'
    tlc.write_cfg(cfg, spec='TSpec', postcondition='Done')
    res = tlc.run_tlc('Equiv', cfg, workers=1, timeout=600, env=dict(TRACE_FILE=path))
    fails, done = [], None
    for line in res.prints:
        v = tlc.parse_tla(line)
        if v[0] == '@@F':
            fails.append((int(v[1]), sorted(v[2][1]), v[3], int(v[4])))
        elif v[0] == '@@DONE':
            done = (int(v[1]), int(v[2]))
    if done is None or done[0] != done[1] or done[1] != len(log):
        raise tlc.TLCError('Equiv did not consume the log (%s)\n%s' % (done, res.out[-2000:]))
    return fails, res
