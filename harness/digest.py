"""Canonical digests of sampler / bound state (read-only walks)."""
import hashlib
import numbers
import numpy as np


def _h():
    return hashlib.sha256()


def _feed(h, o, depth=0):
    if depth > 12:
        h.update(b'<deep>')
        return
    if o is None:
        h.update(b'N')
    elif isinstance(o, (bool, np.bool_)):
        h.update(b'B1' if o else b'B0')
    elif isinstance(o, (numbers.Integral,)):
        h.update(b'I' + str(int(o)).encode())
    elif isinstance(o, (numbers.Real,)):
        h.update(b'F' + np.float64(o).tobytes())
    elif isinstance(o, str):
        h.update(b'S' + o.encode())
    elif isinstance(o, bytes):
        h.update(b'Y' + o)
    elif isinstance(o, np.ndarray):
        a = np.ascontiguousarray(o)
        h.update(b'A' + str(a.dtype.str).encode() + str(a.shape).encode())
        if a.dtype == object:
            for x in a.ravel():
                _feed(h, x, depth + 1)
        else:
            h.update(a.tobytes())
    elif isinstance(o, np.random.Generator):
        st = o.bit_generator.state
        h.update(b'G' + repr(sorted(_flat(st))).encode())
    elif isinstance(o, (list, tuple)):
        h.update(b'L' + str(len(o)).encode())
        for x in o:
            _feed(h, x, depth + 1)
    elif isinstance(o, dict):
        h.update(b'D' + str(len(o)).encode())
        for k in sorted(o, key=str):
            h.update(str(k).encode())
            _feed(h, o[k], depth + 1)
    elif type(o).__name__ == 'MLPRegressor':
        h.update(b'MLP')
        for k in ('coefs_', 'intercepts_'):
            _feed(h, list(getattr(o, k, [])), depth + 1)
        for k in ('n_layers_', 'out_activation_', 'activation', 'n_outputs_'):
            v = getattr(o, k, None)
            _feed(h, v if not isinstance(v, np.generic) else v.item(), depth + 1)
    elif hasattr(o, '__dict__'):
        h.update(b'O' + type(o).__name__.encode())
        d = vars(o)
        for k in sorted(d):
            if k == 'rng':
                continue        # generators are shared; digested once at the top level
            h.update(k.encode())
            _feed(h, d[k], depth + 1)
    else:
        h.update(b'?' + repr(o).encode())


def _flat(d, pre=''):
    for k, v in d.items():
        if isinstance(v, dict):
            yield from _flat(v, pre + k + '.')
        else:
            yield (pre + k, str(v))


def digest(o):
    h = _h()
    _feed(h, o)
    return h.hexdigest()


BOUND_SKIP = {'rng', 'block'}     # Union.block is only consulted by split(), never after construction;
                                  # it is not part of the checkpoint and not part of a bound's behaviour


def _walk_bound(h, o, depth=0):
    if hasattr(o, '__dict__') and type(o).__module__.startswith('nautilus'):
        h.update(b'O' + type(o).__name__.encode())
        d = vars(o)
        for k in sorted(d):
            if k in BOUND_SKIP:
                continue
            h.update(k.encode())
            _walk_bound(h, d[k], depth + 1)
    elif isinstance(o, list):
        h.update(b'L%d' % len(o))
        for x in o:
            _walk_bound(h, x, depth + 1)
    else:
        _feed(h, _norm(o))


def bound_digest(b):
    """Behaviour-relevant content of a bound object (same result for a bound and its write/read copy)."""
    h = _h()
    _walk_bound(h, b)
    return h.hexdigest()


STORED_KEYS = ['points', 'log_l', 'blobs']
STATS_KEYS = ['shell_n', 'shell_n_sample', 'shell_n_eff', 'shell_log_l', 'shell_log_v']
SCALAR_KEYS = ['n_like', 'explored', '_discard_exploration', 'shell_log_l_min', 'shell_n_sample_exp',
               'shell_end_exp', 'n_update_iter', 'n_like_iter', 'blobs_dtype']
TRANSFER_KEYS = ['points_t', 'shell_t', 'log_l_t', 'blobs_t']


def _norm(v):
    """Numpy scalars / 0-d arrays read back from HDF5 attributes digest like python scalars."""
    if isinstance(v, np.ndarray) and v.ndim == 0:
        return v.item()
    if isinstance(v, np.generic):
        return v.item()
    if isinstance(v, np.dtype):
        return str(v)
    return v


def stored_digest(s):
    return digest([[np.asarray(a) for a in (getattr(s, k) or [])] for k in STORED_KEYS])


def stats_digest(s):
    """Digest of the statistics a user can observe.  Entries of shells that hold no visible sample are
    canonicalised: the code leaves NaN or -inf there depending on which path touched the shell last,
    and no accessor can tell the difference."""
    n = np.asarray(s.shell_n)
    empty = n == 0
    vals = [n, np.asarray(s.shell_n_sample)]
    for k in ('shell_n_eff', 'shell_log_l', 'shell_log_v'):
        a = np.array(getattr(s, k), dtype=float, copy=True)
        if len(a) == len(empty):
            a[empty] = 0.0
        vals.append(a)
    with np.errstate(all='ignore'):
        lz = s.log_z
        ne = s.n_eff
    return digest(vals + [None if lz is None else float(lz), float(ne)])


def essential_parts(s, transfer=None):
    """Everything the future of a run depends on, as a dict name -> digest (for diagnostics)."""
    parts = {}
    for k in STORED_KEYS:
        v = getattr(s, k)
        parts[k] = digest(None if v is None else [np.asarray(a) for a in v])
    for k in STATS_KEYS + SCALAR_KEYS:
        if k == 'blobs_dtype':
            v = getattr(s, k, None)
            parts[k] = digest(None if v is None else str(np.dtype(v)))
            continue
        parts[k] = digest(_norm(getattr(s, k, None)) if not isinstance(getattr(s, k, None), np.ndarray)
                          else np.asarray(getattr(s, k)))
    if transfer is None:
        transfer = not bool(s.explored)
    if transfer:
        for k in TRANSFER_KEYS:
            v = getattr(s, k, None)
            parts[k] = digest(None if v is None else np.asarray(v))
    parts['rng'] = digest(s.rng)
    for i, b in enumerate(s.bounds):
        parts['bound_%d' % i] = bound_digest(b)
    return parts


def essential_digest(s, transfer=None):
    p = essential_parts(s, transfer)
    return digest(p), p


def diff_parts(a, b):
    keys = sorted(set(a) | set(b))
    return [k for k in keys if a.get(k) != b.get(k)]
