"""C15: explore the declaration graph of the real nautilus.Prior and log every edge for PriorTrace.tla."""
import json
import numbers
import os
import numpy as np
from scipy import stats

from . import common, tlc
from nautilus import Prior  # noqa: E402

KEYS = ['a', 'b', 'x_0', 'x_1']


def alphabet(n_next):
    """All (key argument, dist argument) pairs offered from a prior with n_next-1 accepted declarations."""
    keyargs = [dict(kk='none'), dict(kk='nonstr')] + [dict(kk='str', ks=k) for k in KEYS]
    distargs = [dict(dd='range', dtag=n_next), dict(dd='dist', dtag=n_next), dict(dd='number', dtag=n_next),
                dict(dd='bad')] + [dict(dd='link', dto=k) for k in KEYS]
    return [(ka, da) for ka in keyargs for da in distargs]


def concrete(ka, da):
    key = None if ka['kk'] == 'none' else (1.0 if ka['kk'] == 'nonstr' else ka['ks'])
    d = da['dd']
    if d == 'range':
        dist = (10.0 * da['dtag'], 10.0 * da['dtag'] + 1.0)
    elif d == 'dist':
        dist = stats.norm(loc=10.0 * da['dtag'] + 0.5, scale=0.001)
    elif d == 'number':
        # fixed numbers come as python floats, numpy integers and numpy float32 in turn (all are numbers.Number)
        dist = [float, np.int64, np.float32][da['dtag'] % 3](da['dtag'])
    elif d == 'link':
        dist = da['dto']
    else:
        dist = [0.0]
    return key, dist


def build(seq):
    p = Prior()
    for ka, da in seq:
        key, dist = concrete(ka, da)
        p.add_parameter(key, dist)
    return p


def project(p):
    """Prior -> decl records; aligned = the two parallel lists have the same length."""
    n = min(len(p.keys), len(p.dists))
    decl = []
    for i in range(n):
        k, d = p.keys[i], p.dists[i]
        if isinstance(d, str):
            decl.append(dict(key=str(k), kind='link', target=d, tag=0))
        elif isinstance(d, numbers.Number):
            decl.append(dict(key=str(k), kind='fixed', target='', tag=int(round(float(d)))))
        else:
            decl.append(dict(key=str(k), kind='free', target='', tag=int(np.floor(float(d.mean()) / 10.0))))
    return decl, len(p.keys) == len(p.dists)


def _decode(v, dists_by_tag):
    tag = int(np.floor(v / 10.0))
    return tag


def observe(p, aligned):
    """What the transforms return, decoded to (tag, coordinate)."""
    obs = dict(aligned=bool(aligned), dim=-1, phys=[], dict=[], shapesOK=True, monotone=True)
    if not aligned:
        return obs
    try:
        d = p.dimensionality()
        obs['dim'] = int(d)
        if d == 0:
            return obs
        u = 0.2 + 0.6 * (np.arange(d) + 0.5) / d            # distinct coordinates, away from the tails
        free = [x for x in p.dists if hasattr(x, 'isf')]
        y1 = p.unit_to_physical(u)
        U = np.vstack([u, np.roll(u, 1) * 0.9 + 0.05, u[::-1]])
        y2 = p.unit_to_physical(U)
        obs['shapesOK'] = bool(np.shape(y1) == (d,) and np.shape(y2) == (3, d) and np.allclose(y2[0], y1))

        def coord_of(val, dist, row):
            c = float(dist.cdf(val))
            hits = np.flatnonzero(np.abs(row - c) < 1e-6)
            return int(hits[0]) + 1 if len(hits) == 1 else 0
        for c in range(d):
            tag = int(np.floor(y1[c] / 10.0))
            fd = [x for x in free if int(np.floor(float(x.mean()) / 10.0)) == tag]
            coord = coord_of(y1[c], fd[0], u) if fd else 0
            # the same column of the 2-D input must use the same distribution and coordinate in every row
            for r in range(3):
                if not fd or coord_of(y2[r, c], fd[0], U[r]) != coord:
                    coord = 0 if coord == 0 else -coord
                    break
            obs['phys'].append(dict(tag=tag, coord=coord))
        # monotone in its own coordinate
        for c in range(d):
            grid = np.tile(u, (7, 1))
            grid[:, c] = np.linspace(0.05, 0.95, 7)
            yy = p.unit_to_physical(grid)
            k = [j for j in range(d) if obs['phys'][j]['coord'] == c + 1]
            if k and not np.all(np.diff(yy[:, k[0]]) > 0):
                obs['monotone'] = False
        dd = p.unit_to_dictionary(u)
        dd2 = p.unit_to_dictionary(U)
        for key in dd:
            v = float(np.asarray(dd[key]))
            tag = int(np.floor(v / 10.0))
            fd = [x for x in free if int(np.floor(float(x.mean()) / 10.0)) == tag]
            if abs(v - round(v)) < 1e-12 and not fd:
                obs['dict'].append(dict(key=str(key), kind='fixed', tag=int(round(v)), coord=0))
            elif abs(v - round(v)) < 1e-12 and fd and coord_of(v, fd[0], u) == 0:
                obs['dict'].append(dict(key=str(key), kind='fixed', tag=int(round(v)), coord=0))
            else:
                obs['dict'].append(dict(key=str(key), kind='free', tag=tag, coord=coord_of(v, fd[0], u) if fd else 0))
            if np.shape(dd2[key]) != (3,) or np.shape(dd[key]) != ():
                obs['shapesOK'] = False
    except Exception as e:
        obs['shapesOK'] = False
        obs['error'] = '%s: %s' % (type(e).__name__, str(e)[:100])
    return obs


def explore(max_accepted):
    """BFS over reachable priors; every (prior, declaration) edge once.  Returns the log."""
    log = []
    frontier = [[]]
    seen = 0
    edges = 0
    outcomes = {}
    for depth in range(max_accepted + 1):
        nxt = []
        for seq in frontier:
            seen += 1
            if depth == max_accepted:
                continue
            for ka, da in alphabet(depth + 1):
                p = build(seq)
                pre, al0 = project(p)
                log.append(dict(event=dict(name='Restore'), decl=pre, obs=observe(p, al0)))
                key, dist = concrete(ka, da)
                try:
                    p.add_parameter(key, dist)
                    outcome = 'ok'
                except Exception as e:
                    outcome = type(e).__name__
                post, al = project(p)
                ev = dict(name='Add', outcome=outcome, kk=ka['kk'], ks=ka.get('ks', ''), dd=da['dd'],
                          dtag=da.get('dtag', 0), dto=da.get('dto', ''))
                log.append(dict(event=ev, decl=post, obs=observe(p, al)))
                edges += 1
                outcomes[outcome] = outcomes.get(outcome, 0) + 1
                if outcome == 'ok' and al:
                    nxt.append(seq + [(ka, da)])
        frontier = nxt
    return log, dict(priors=seen, edges=edges, outcomes=outcomes)


def validate(log, scratch, tag='p'):
    path = os.path.join(scratch, 'prior_%s.json' % tag)
    json.dump(log, open(path, 'w'))
    cfg = path + '.cfg'
    tlc.write_cfg(cfg, spec='TSpec', constants=dict(Keys=set(KEYS), MaxLen=99), postcondition='Done')
    res = tlc.run_tlc('PriorTrace', cfg, workers=1, timeout=1800, env=dict(TRACE_FILE=path), heap='8g')
    fails, done = [], None
    for line in res.prints:
        v = tlc.parse_tla(line)
        if v[0] == '@@F':
            fails.append((int(v[1]), sorted(v[2][1])))
        elif v[0] == '@@DONE':
            done = (int(v[1]), int(v[2]))
    if done is None or done[0] != done[1] or done[1] != len(log):
        raise tlc.TLCError('PriorTrace did not consume the log (%s)\n%s' % (done, res.out[-2500:]))
    return fails, res


def explore_from(args):
    """All edges of the declaration graph below the prior reached by `root` (list of (ka, da)),
    down to max_accepted accepted declarations in total."""
    root, max_accepted = args
    log = []
    frontier = [list(root)]
    st = dict(priors=0, edges=0, outcomes={})
    for depth in range(len(root), max_accepted):
        nxt = []
        for seq in frontier:
            st['priors'] += 1
            for ka, da in alphabet(depth + 1):
                p = build(seq)
                pre, al0 = project(p)
                log.append(dict(event=dict(name='Restore'), decl=pre, obs=observe(p, al0)))
                key, dist = concrete(ka, da)
                try:
                    p.add_parameter(key, dist)
                    outcome = 'ok'
                except Exception as e:
                    outcome = type(e).__name__
                post, al = project(p)
                ev = dict(name='Add', outcome=outcome, kk=ka['kk'], ks=ka.get('ks', ''), dd=da['dd'],
                          dtag=da.get('dtag', 0), dto=da.get('dto', ''))
                log.append(dict(event=ev, decl=post, obs=observe(p, al)))
                st['edges'] += 1
                st['outcomes'][outcome] = st['outcomes'].get(outcome, 0) + 1
                if outcome == 'ok' and al:
                    nxt.append(seq + [(ka, da)])
        frontier = nxt
    return log, st
