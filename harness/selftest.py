"""./check selftest : validation of the machinery itself (DESIGN 9).  Not a property check.

 1. vacuity   : TLC -coverage on the model-checking configurations; every action of Next must have been taken
 2. binding   : an accepted implementation trace is corrupted in one field / loses one event / gets two events
                swapped -> the trace specification must reject it and name a clause
 3. mutants   : every patch in mutants/ is applied to a scratch worktree and the check expected to report it is run
Writes selftest_report.json.  Exit 0 iff everything behaved as expected.
"""
import copy
import glob
import json
import os
import re
import subprocess
import time

from . import common, tlc, history, validate

EXPECT = {            # mutant file prefix -> checks that must report it
    'M01': ['C01'], 'M02': ['C02'], 'M03': ['C01'], 'M04': ['C05'], 'M05': ['C05'], 'M06': ['C06'], 'M07': ['C13'],
    'M08': ['C09'], 'M09': ['C15'], 'M10': ['C16'], 'M11': ['C14'], 'M12': ['C15'], 'M13': ['C11'], 'M14': ['C11'],
    'M15': ['C08'], 'M16': ['C08'], 'M17': ['C08'], 'M18': ['C05'], 'M19': ['C03'],
}


def vacuity(report):
    from . import checks_sampler as cs
    scratch = common.scratch('self_')
    out = []
    try:
        for label, spec, consts, mod in (('core', 'SpecCore', cs.MC_CORE, 'Sampler'), ('run', 'SpecRun', cs.MC_RUN, 'Sampler')):
            cfg = os.path.join(scratch, 'cov_%s.cfg' % label)
            tlc.write_cfg(cfg, spec=spec, constants=consts, invariants=cs.MC_INVARIANTS, properties=cs.MC_PROPERTIES,
                          constraint='MCConstraint')
            res = tlc.run_tlc(mod, cfg, workers=common.NCPU, timeout=1800, coverage=True)
            acts = {k: v for k, v in res.coverage.items()}
            never = sorted(k for k, v in acts.items() if v[1] == 0)
            out.append(dict(config=label, states=res.states, actions=acts, never_taken=never))
            print('vacuity %s: %d states, actions %s, never taken: %s' % (label, res.states, sorted(acts), never))
    finally:
        common.rmtree(scratch)
    report['vacuity'] = out
    return all(not o['never_taken'] for o in out)


def binding(report):
    """Corrupt an accepted trace in several ways; each corruption must be rejected with a named item."""
    cfg = dict(kind='two', n_networks=1, blob='multi', seed=7, mseed=0,
               history=[['run', dict(n_eff=40, n_like_rel=400, discard_exploration=True)], ['posterior'],
                        ['toggle', False], ['posterior'], ['observe', 'occupation']])
    r = history.run_history(cfg)
    ev = r['events']
    scratch = common.scratch('bind_')
    results = []
    ok = True
    try:
        def run(tag, events):
            p = os.path.join(scratch, 'b_%s.json' % tag)
            history.write_trace(events, p)
            try:
                v = validate.validate(p, history.constants(cfg), len(events))
                return sorted(v.names()), [st for st, _ in v.fails][:3]
            except tlc.TLCError as e:
                return ['TLC-ERROR'], [str(e)[-200:]]
        names, _ = run('orig', ev)
        results.append(dict(corruption='none', rejected_with=names))
        ok = ok and names == []
        idx = [i for i, e in enumerate(ev) if e['event']['name'] == 'AddSamples']
        mid = idx[len(idx) // 2]
        acc = [i for i, e in enumerate(ev) if e['event']['name'] == 'AddBoundAccept']

        def c1(e):      # one proposal count off by one, from that step on
            for k in range(mid, len(e)):
                e[k]['state']['nsamp'][0] += 1
        def c2(e):      # two stored ids swapped in one state
            sh = e[mid]['state']['shell'][0]
            sh[0], sh[1] = sh[1], sh[0]
        def c3(e):      # one event dropped
            del e[mid]
        def c4(e):      # a blob code changed in the stored rows
            e[mid]['state']['sbl'][0][0] += 1
        def c5(e):      # a point claimed to be inside a later bound
            st = e[-1]['state']
            st['inb'][st['shell'][0][0] - 1].append(st['bseq'][-1])
        def c6(e):      # likelihood counter off by one batch in one state
            e[mid]['state']['nlike'] += 1
        def c7(e):      # transfer queue entry lost at the bound insertion
            if acc:
                q = e[acc[-1]]['state']['tq']
                if q:
                    q.pop()
        def c8(e):      # posterior rows reordered
            k = [i for i, x in enumerate(e) if x['event']['name'] == 'Posterior'][0]
            rows = e[k]['event']['rows']
            rows[0], rows[-1] = rows[-1], rows[0]
        def c9(e):      # float residual of log_z too large
            e[mid]['resid']['log_z'] = 5000
        def c10(e):     # the reported occupation matrix differs from the one the signatures give
            k = [i for i, x in enumerate(e) if x['event']['name'] == 'Observe'][-1]
            e[k]['event']['occ'][-1][0] += 1
        for tag, fn in (('nsamp+1', c1), ('swap-ids', c2), ('drop-event', c3), ('blob-code', c4), ('inside-later-bound', c5),
                        ('nlike+1', c6), ('tq-entry-lost', c7), ('posterior-rows-reordered', c8), ('logz-residual', c9),
                        ('occupation-entry', c10)):
            e2 = copy.deepcopy(ev)
            fn(e2)
            names, where = run(tag, e2)
            results.append(dict(corruption=tag, rejected_with=names, first_steps=where))
            print('binding %-26s -> %s' % (tag, names[:6]))
            ok = ok and bool(names)
    finally:
        common.rmtree(scratch)
    report['binding'] = results
    return ok


def mutants(report, only=None):
    out = []
    ok = True
    for path in sorted(glob.glob(os.path.join(common.VERIF, 'mutants', 'M*.diff'))):
        key = os.path.basename(path)[:3]
        if only and key not in only:
            continue
        for chk in EXPECT.get(key, []):
            t = time.time()
            p = subprocess.run([os.path.join(common.VERIF, 'tools', 'with_patch.sh'), path,
                                os.path.join(common.VERIF, 'check'), chk], cwd=common.VERIF,
                               stdout=subprocess.PIPE, stderr=subprocess.STDOUT, text=True)
            first = [l for l in p.stdout.splitlines() if l.startswith('VIOLATION') or l.startswith('  what:')][:2]
            det = p.returncode == 1
            out.append(dict(mutant=os.path.basename(path), check=chk, detected=det, rc=p.returncode,
                            wall_s=round(time.time() - t, 1), first=[x[:300] for x in first]))
            print('mutant %-50s %s %s' % (os.path.basename(path), chk, 'DETECTED' if det else 'MISSED rc=%d' % p.returncode))
            ok = ok and det
    report['mutants'] = out
    return ok


def main(tier='quick'):
    report = dict(started=time.strftime('%Y-%m-%d %H:%M:%S'))
    ok1 = vacuity(report)
    ok2 = binding(report)
    ok3 = mutants(report) if tier == 'thorough' else True
    report['ok'] = dict(vacuity=ok1, binding=ok2, mutants=ok3)
    with open(os.path.join(common.VERIF, 'selftest_report.json'), 'w') as f:
        json.dump(report, f, indent=1, default=common._jd)
    print('SELFTEST', report['ok'])
    return 0 if (ok1 and ok2 and ok3) else 1
