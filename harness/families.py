"""Likelihood / prior families owned by the harness.

Every likelihood is a PURE function of its argument and returns log(k) for an integer
level k in 0..K (-inf for 0), so that per-shell sums are exact integers the TLA+
specification can recompute.  Blobs are pure functions of the argument as well.
The callable records every argument it is actually called with (in-process calls only).
"""
import numpy as np

KINDS = ['gauss', 'two', 'plateau', 'funnel', 'wrap', 'ring']
BLOBS = ['none', 'float', 'int', 'f32', 'multi', 'array', 'bool2', 'bytes', 'struct', 'str']
PRIORS = ['id', 'affine', 'inplace', 'Prior', 'PriorArr']


class Model:
    def __init__(self, kind='gauss', n_dim=2, K=8, seed=0, blob='none', prior='id',
                 vectorized=False, record=True, cells_lv=None, smooth=False):
        self.smooth = smooth            # un-quantised log-likelihood (sensitive to one-ulp differences; C11 only)
        self.cells_lv = cells_lv        # kind 'cells': level of each vertical strip (spec/CellWorld.tla)
        self.kind, self.n_dim, self.K, self.seed = kind, n_dim, K, seed
        self.blob, self.prior_mode, self.vectorized = blob, prior, vectorized
        self.record = record
        g = np.random.default_rng(1000 + seed)
        self.c1 = 0.5 + 0.1 * (g.random(n_dim) - 0.5)
        self.c2a = 0.25 + 0.06 * (g.random(n_dim) - 0.5)
        self.c2b = 0.75 + 0.06 * (g.random(n_dim) - 0.5)
        self.cut = 0.55 + 0.1 * g.random()
        self.wrapc = 0.02 + 0.03 * g.random()
        self.lo = np.round(-1.0 + g.random(n_dim), 3) if prior != 'id' else np.zeros(n_dim)
        self.w = np.round(1.0 + 2.0 * g.random(n_dim), 3) if prior != 'id' else np.ones(n_dim)
        self.calls = []          # arguments actually seen (as arrays, physical space)
        self.n_calls = 0
        self.keys = ['p%d' % i for i in range(n_dim)]
        self._prior_obj = None

    # ---------------- pure functions ----------------
    def _v(self, t):
        """Unnormalised likelihood in [0,1] for a point t of the unit cube (scalar path only)."""
        k = self.kind
        if k == 'gauss':
            return float(np.exp(-np.sum((t - self.c1) ** 2) / (2 * 0.08 ** 2)))
        if k == 'two':
            return float(np.exp(-np.sum((t - self.c2a) ** 2) / (2 * 0.05 ** 2)) +
                         0.7 * np.exp(-np.sum((t - self.c2b) ** 2) / (2 * 0.05 ** 2)))
        if k == 'plateau':
            return 0.0 if t[0] < self.cut else float((t[0] - self.cut) / (1 - self.cut))
        if k == 'funnel':
            s = 0.01 + 0.25 * t[0]
            return float(np.exp(-np.sum((t[1:] - 0.5) ** 2) / (2 * s ** 2)) * np.exp(-t[0] * 3))
        if k == 'wrap':
            d0 = abs(t[0] - self.wrapc)
            d0 = min(d0, 1 - d0)
            return float(np.exp(-(d0 ** 2 + np.sum((t[1:] - 0.5) ** 2)) / (2 * 0.07 ** 2)))
        if k == 'cells':
            c = min(int(np.floor(t[0] * len(self.cells_lv))), len(self.cells_lv) - 1)
            return self.cells_lv[max(c, 0)] / float(self.K)
        if k == 'ring':
            r = np.sqrt(np.sum((t - 0.5) ** 2))
            return float(np.exp(-(r - 0.3) ** 2 / (2 * 0.04 ** 2)))
        raise ValueError(k)

    def level_theta(self, theta):
        t = (np.asarray(theta, dtype=float) - self.lo) / self.w
        v = self._v(t)
        return int(np.ceil(self.K * min(v, 1.0)))

    def code_theta(self, theta):
        t0 = (float(theta[0]) - self.lo[0]) / self.w[0]
        return int(min(max(np.floor(t0 * 2 ** 20), 0), 2 ** 20 - 1))

    def prior_pure(self, u):
        """theta for one unit-cube point (1-D), same float operations as the prior given to the sampler."""
        u = np.array(u, dtype=float)
        m = self.prior_mode
        if m == 'id':
            return u
        if m in ('affine', 'inplace'):
            return self.lo + self.w * u
        p = self.prior_object()
        return p.unit_to_physical(u)

    def unit_level(self, u):
        return self.level_theta(self.prior_pure(u))

    def unit_code(self, u):
        return self.code_theta(self.prior_pure(u))

    @staticmethod
    def loglike_of_level(lv):
        return float(np.log(lv)) if lv > 0 else -np.inf

    # ---------------- what the sampler is given ----------------
    def prior_object(self):
        if self._prior_obj is None:
            from nautilus import Prior
            p = Prior()
            for k, lo, w in zip(self.keys, self.lo, self.w):
                p.add_parameter(k, dist=(float(lo), float(lo + w)))
            self._prior_obj = p
        return self._prior_obj

    def prior(self):
        m = self.prior_mode
        if m == 'id':
            return _PriorId()
        if m == 'affine':
            return _PriorAffine(self.lo, self.w)
        if m == 'inplace':
            return _PriorInplace(self.lo, self.w)
        return self.prior_object()

    @property
    def pass_dict(self):
        return self.prior_mode == 'Prior'

    def sampler_kwargs(self):
        kw = dict(vectorized=self.vectorized)
        if self.prior_mode in ('id', 'affine', 'inplace'):
            kw['n_dim'] = self.n_dim
        if self.prior_mode == 'PriorArr':
            kw['pass_dict'] = False
        if self.blob == 'struct':
            kw['blobs_dtype'] = [('c', 'i8'), ('l', 'f4')]
        return kw

    def _one(self, theta):
        lv = self.level_theta(theta)
        ll = self.loglike_of_level(lv)
        if self.smooth:
            v = self._v((np.asarray(theta, dtype=float) - self.lo) / self.w)
            ll = float(np.log(v)) if v > 0 else -np.inf
        code = self.code_theta(theta)
        return ll, self.make_blob(code, lv)

    def make_blob(self, code, lv):
        b = self.blob
        if b == 'none':
            return None
        if b == 'float':
            return (float(code),)
        if b == 'int':
            return (int(code),)
        if b == 'f32':
            return (np.float32(code),)
        if b == 'multi':
            return (int(code), float(lv))
        if b == 'array':
            return (np.array([code, code + 1], dtype=float),)
        if b == 'bool2':
            return (bool(code % 2), int(code))
        if b == 'bytes':
            return (('%07d' % code).encode(),)
        if b == 'struct':
            return (int(code), float(lv))
        if b == 'str':
            return ('%07d' % code,)
        raise ValueError(b)

    def decode_blob(self, row):
        """stored blob row -> integer code (inverse of make_blob)."""
        b = self.blob
        if b in ('float', 'int', 'f32'):
            return int(round(float(row)))
        if b in ('multi', 'struct'):
            return int(row[0])
        if b == 'array':
            r = np.asarray(row).ravel()
            return int(round(float(r[0]))) if r[1] == r[0] + 1 else -1
        if b == 'bool2':
            return int(row[1]) if bool(row[0]) == bool(int(row[1]) % 2) else -1
        if b == 'bytes':
            return int(bytes(row).decode())
        if b == 'str':
            return int(str(row))
        return 0

    def _theta_rows(self, args):
        if isinstance(args, dict):
            a = np.stack([np.asarray(args[k], dtype=float) for k in self.keys], axis=-1)
        else:
            a = np.asarray(args, dtype=float)
        return a

    def likelihood(self, args):
        a = self._theta_rows(args)
        if a.ndim == 1:
            if self.record:
                self.calls.append(a.copy())
            self.n_calls += 1
            ll, bl = self._one(a)
            return ll if bl is None else (ll,) + bl
        # vectorised call
        lls, bls = [], []
        for row in a:
            if self.record:
                self.calls.append(row.copy())
            self.n_calls += 1
            ll, bl = self._one(row)
            lls.append(ll)
            bls.append(bl)
        lls = np.array(lls)
        if self.blob == 'none':
            return lls
        cols = list(zip(*bls))
        return (lls,) + tuple(np.array(c) for c in cols)

    __call__ = likelihood

    def spec(self):
        return dict(kind=self.kind, n_dim=self.n_dim, K=self.K, seed=self.seed, blob=self.blob,
                    prior=self.prior_mode, vectorized=self.vectorized)


class _PriorId:
    def __call__(self, u):
        return u


class _PriorAffine:
    def __init__(self, lo, w):
        self.lo, self.w = lo, w

    def __call__(self, u):
        return self.lo + self.w * u


class _PriorInplace:
    """A prior that transforms its argument in place (allowed: the sampler hands it a copy)."""

    def __init__(self, lo, w):
        self.lo, self.w = lo, w

    def __call__(self, u):
        u *= self.w
        u += self.lo
        return u
