"""Scripted geometry ("cell worlds", spec/CellWorld.tla): real Sampler.run() on bounds that are unions of
vertical strips of the unit square with exact volumes, chosen by a TLC-generated world."""
import numpy as np

from . import common  # noqa
import nautilus.sampler as ns  # noqa: E402
from nautilus.bounds import UnitCube  # noqa: E402


class CellBound:
    """Union of strips {x : floor(x0 * C) + 1 in cells}; duck-types NautilusBound for the sampler."""

    def __init__(self, cells, C, n_dim, rng):
        self.cells = sorted(int(c) for c in cells)
        self.C, self.n_dim, self.rng = C, n_dim, rng
        self.n_sample, self.n_reject = 1000, 0
        self.points = np.zeros((0, n_dim))
        self.neural_bounds = []

    def contains(self, points):
        p = np.asarray(points)
        c = np.floor(p[..., 0] * self.C).astype(int) + 1
        inside = np.isin(c, self.cells) & np.all((p >= 0) & (p < 1), axis=-1)
        return inside

    def sample(self, n_points=100, return_points=True, pool=None):
        if not return_points:
            return None
        k = self.rng.integers(0, len(self.cells), size=n_points)
        x = self.rng.random(size=(n_points, self.n_dim))
        x[:, 0] = (np.array(self.cells)[k] - 1 + x[:, 0]) / self.C
        x[:, 0] = np.minimum(x[:, 0], np.nextafter(np.array(self.cells)[k] / self.C, 0))
        return x

    @property
    def log_v(self):
        return float(np.log(len(self.cells) / self.C))

    # checkpointing (the sampler writes / reads its bounds through these)
    def write(self, group):
        group.attrs['type'] = 'CellBound'
        group.attrs['cells'] = np.array(self.cells, dtype=int)
        group.attrs['C'] = self.C
        group.attrs['n_dim'] = self.n_dim

    def update(self, group):
        pass

    @classmethod
    def read(cls, group, rng=None):
        return cls([int(c) for c in group.attrs['cells']], int(group.attrs['C']), int(group.attrs['n_dim']), rng)

    @property
    def n_ell(self):
        return len(self.cells)

    @property
    def n_net(self):
        return 0


class World:
    def __init__(self, lv, extra, drop, K):
        self.lv = [int(x) for x in lv]
        self.extra = [sorted(int(c) for c in e) for e in extra]
        self.drop = [sorted(int(c) for c in d) for d in drop]
        self.C = len(self.lv)
        self.K = K
        self.n_built = 0

    def spec(self):
        return dict(lv=self.lv, extra=self.extra, drop=self.drop)


def install(world, n_dim=2):
    """Monkeypatch NautilusBound.compute inside nautilus.sampler for the lifetime of the returned context."""
    class Ctx:
        def __enter__(self_):
            self_.orig = ns.NautilusBound

            class FakeNB:
                @classmethod
                def compute(cls, points, log_l, log_l_min, log_v_target, rng=None, **kw):
                    k = world.n_built
                    world.n_built += 1
                    live = points[log_l >= log_l_min]
                    cells = set((np.floor(live[:, 0] * world.C).astype(int) + 1).tolist())
                    cells |= set(world.extra[k % len(world.extra)])
                    d = set(world.drop[k % len(world.drop)])
                    if len(cells - d) >= 1:
                        cells -= d
                    return CellBound(cells, world.C, points.shape[1], rng)

                @classmethod
                def read(cls, group, rng=None):
                    return CellBound.read(group, rng=rng)
            ns.NautilusBound = FakeNB
            return self_

        def __exit__(self_, *a):
            ns.NautilusBound = self_.orig
    return Ctx()
