"""Property id -> check function(prop, tier, seed) -> exit status."""
import json

from . import checks_sampler, checks_ckpt, checks_bounds, checks_small, checks_equiv, checks_round

CHECKS = {
    'C01': checks_sampler.check,
    'C02': checks_sampler.check,
    'C03': checks_sampler.check,
    'C10': checks_sampler.check,
    'C11': checks_equiv.check_c11,
    'C12': checks_sampler.check,
    'C05': checks_ckpt.check_c05,
    'C06': checks_ckpt.check_c06,
    'C07': checks_bounds.check_c07,
    'C08': checks_round.check_c08,
    'C09': checks_bounds.check_c09,
    'C13': checks_bounds.check_c13,
    'C14': checks_small.check_c14,
    'C15': checks_small.check_c15,
    'C16': checks_small.check_c16,
}


def replay(prop, path, tier, seed):
    """Re-run the saved failing input / history on the current tree and re-validate it."""
    obj = json.load(open(path))
    rp = obj.get('replay') or {}
    print('replaying %s: %s' % (obj.get('key'), obj.get('what')))
    if prop in ('C01', 'C02', 'C03', 'C10', 'C12') and 'cfg' in rp:
        from . import common
        rep = common.Report(prop, tier, seed)
        scratch = common.scratch('replay_')
        try:
            checks_sampler.run_and_validate(rep, prop, [rp['cfg']], scratch)
        finally:
            common.rmtree(scratch)
        rep.coverage['evaluations'] = 1
        rep.coverage['distinct_nontrivial'] = 2
        return 1 if rep.violations else 0
    from . import replays
    return replays.replay(prop, obj, tier, seed)
