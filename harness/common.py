"""Shared plumbing: locating the tree under test, evidence files, known findings, parallel map."""
import json
import os
import sys
import time
import tempfile
import shutil
import concurrent.futures as cf

VERIF = os.path.dirname(os.path.dirname(os.path.abspath(__file__)))
REPO = os.environ.get('NAUTILUS_VERIF_REPO', '/repo')
SPEC = os.path.join(VERIF, 'spec')
# evidence/<id>.json describes runs against /repo itself; a run against another tree (a scratch worktree with a
# seeded change, via NAUTILUS_VERIF_REPO) writes to a side directory so that it can never be mistaken for it
EVID = os.path.join(VERIF, 'evidence') if os.path.realpath(REPO) == '/repo' else os.path.join(VERIF, 'evidence', '_other_tree')
NCPU = min(16, os.cpu_count() or 1)

for _v in ('OMP_NUM_THREADS', 'OPENBLAS_NUM_THREADS', 'MKL_NUM_THREADS', 'NUMEXPR_NUM_THREADS'):
    os.environ.setdefault(_v, '1')
os.environ.setdefault('PYTHONHASHSEED', '0')
os.environ.setdefault('PYTHONWARNINGS', 'ignore')
import warnings  # noqa: E402
warnings.filterwarnings('ignore')


def use_repo():
    """Put the tree under test first on sys.path (always the current working tree)."""
    if REPO not in sys.path:
        sys.path.insert(0, REPO)
    if VERIF not in sys.path:
        sys.path.insert(1, VERIF)


use_repo()


def seed_from_env(default=0):
    try:
        return int(os.environ.get('VERIF_SEED', default))
    except ValueError:
        return default


def scratch(prefix='nv_'):
    base = os.environ.get('VERIF_SCRATCH')
    if base:
        os.makedirs(base, exist_ok=True)
    return tempfile.mkdtemp(prefix=prefix, dir=base)


def rmtree(path):
    shutil.rmtree(path, ignore_errors=True)


class CpuTimeout(Exception):
    """The job used more CPU time than any legitimate execution needs (robust against a loaded machine)."""


class cpu_limit:
    """with cpu_limit(seconds): ...  raises CpuTimeout after that much CPU time of THIS process (user time)."""

    def __init__(self, seconds):
        self.seconds = seconds

    def __enter__(self):
        import signal

        def handler(signum, frame):
            raise CpuTimeout('more than %d s of CPU time' % self.seconds)
        self.old = signal.signal(signal.SIGVTALRM, handler)
        # repeating: code under test may swallow the first exception in a generic handler and loop again
        signal.setitimer(signal.ITIMER_VIRTUAL, self.seconds, max(10.0, self.seconds / 4.0))
        return self

    def __exit__(self, *a):
        import signal
        signal.setitimer(signal.ITIMER_VIRTUAL, 0)
        signal.signal(signal.SIGVTALRM, self.old)
        return False


def pmap(fn, jobs, workers=None, timeout=None):
    """Run fn(job) over jobs in worker processes (non-daemonic, so jobs may create pools)."""
    jobs = list(jobs)
    if not jobs:
        return []
    workers = min(workers or NCPU, len(jobs))
    if workers <= 1:
        return [fn(j) for j in jobs]
    import multiprocessing as mp
    ctx = mp.get_context('fork')
    with cf.ProcessPoolExecutor(max_workers=workers, mp_context=ctx) as ex:
        futs = [ex.submit(fn, j) for j in jobs]
        return [f.result(timeout=timeout) for f in futs]


def tmap(fn, jobs, workers=None):
    """Thread map (for jobs that only wait on subprocesses such as TLC)."""
    jobs = list(jobs)
    if not jobs:
        return []
    with cf.ThreadPoolExecutor(max_workers=min(workers or NCPU, len(jobs))) as ex:
        return list(ex.map(fn, jobs))


# ---------------------------------------------------------------------------
# Known findings:  /verif/KNOWN_FINDINGS.txt
#   finding: property=<id> key=<stable key> <free text>
#   fixed: property=<id> <commit> <what failed>
# ---------------------------------------------------------------------------
def known_findings(prop):
    path = os.path.join(VERIF, 'KNOWN_FINDINGS.txt')
    out = {}
    if not os.path.exists(path):
        return out
    for line in open(path):
        line = line.strip()
        if not line.startswith('finding:'):
            continue
        fields = dict(f.split('=', 1) for f in line.split()[1:3] if '=' in f)
        if fields.get('property') == prop and 'key' in fields:
            out[fields['key']] = line
    return out


class Report:
    """Collects what a check run did, prints verdict lines, writes the evidence file."""

    def __init__(self, prop, tier, seed, level='model_checking'):
        self.prop, self.tier, self.seed, self.level = prop, tier, seed, level
        self.t0 = time.time()
        self.violations = []      # (key, description, replay_path)
        self.known = []           # keys matched against KNOWN_FINDINGS
        self.divergences = []
        self.other = []
        self.coverage = dict(states=0, transitions=0, traces_validated_against_impl=0, samples=[])
        self.assumptions = []
        self.notes = []
        self._known = known_findings(prop)
        rmtree(os.path.join(EVID, 'replay', prop))     # replays describe the violations of the LAST run only

    def add_tlc(self, res, label=None):
        self.coverage['states'] += int(res.states)
        self.coverage['transitions'] += int(res.generated)
        if label:
            self.coverage.setdefault('tlc_runs', []).append(dict(label=label, **res.brief()))

    def sample(self, obj, cap=6):
        if len(self.coverage['samples']) < cap:
            self.coverage['samples'].append(obj)

    def violation(self, key, desc, replay_obj=None):
        """Record a violation of self.prop.  key identifies the failing input/history/call site."""
        if key in self._known:
            if key not in self.known:
                self.known.append(key)
                print('KNOWN-FINDING: property=%s %s' % (self.prop, self._known[key].split(' ', 3)[-1]))
            return
        if any(k == key for k, _, _ in self.violations):
            return                      # same failing input / call site already reported in this run
        path = self._save_replay(key, desc, replay_obj)
        self.violations.append((key, desc, path))
        print('VIOLATION property=%s replay=%s' % (self.prop, path))
        print('  what: %s' % desc)

    def divergence(self, desc):
        self.divergences.append(desc)
        print('DIVERGENCE %s' % desc)

    def info(self, msg):
        print(msg)
        sys.stdout.flush()

    def _save_replay(self, key, desc, obj):
        d = os.path.join(EVID, 'replay', self.prop)
        os.makedirs(d, exist_ok=True)
        safe = ''.join(c if c.isalnum() or c in '-_.' else '_' for c in key)[:80]
        path = os.path.join(d, '%s.json' % safe)
        with open(path, 'w') as f:
            json.dump(dict(property=self.prop, key=key, what=desc, replay=obj), f, indent=1, default=_jd)
        return path

    def finish(self):
        os.makedirs(EVID, exist_ok=True)
        cov = dict(self.coverage)
        if not cov.get('samples'):
            cov['samples'] = ['(no sample recorded)']
        cov['divergences'] = self.divergences[:20]
        cov['known_findings_seen'] = self.known
        cov['notes'] = self.notes
        ev = dict(property_id=self.prop, tier=self.tier, seed=int(self.seed), level=self.level,
                  coverage=cov, assumptions=self.assumptions, wall_s=round(time.time() - self.t0, 2),
                  violations=len(self.violations))
        with open(os.path.join(EVID, '%s.json' % self.prop), 'w') as f:
            json.dump(ev, f, indent=1, default=_jd)
        if self.violations:
            print('RESULT property=%s FAIL (%d violation(s)) in %.1fs' % (self.prop, len(self.violations), ev['wall_s']))
            return 1
        print('RESULT property=%s PASS states=%s transitions=%s traces=%s in %.1fs' % (
            self.prop, cov.get('states'), cov.get('transitions'),
            cov.get('traces_validated_against_impl'), ev['wall_s']))
        return 0


def _jd(o):
    import numpy as np
    if isinstance(o, (np.integer,)):
        return int(o)
    if isinstance(o, (np.floating,)):
        return float(o)
    if isinstance(o, (np.bool_,)):
        return bool(o)
    if isinstance(o, np.ndarray):
        return o.tolist()
    if isinstance(o, (set, frozenset)):
        return sorted(o)
    if isinstance(o, bytes):
        return o.hex()
    return str(o)
