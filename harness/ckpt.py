"""C05: stopping and resuming at any batch boundary does not change the result.

A seeded reference run is sliced batch by batch through the public API (run(n_like_max=n_like+1)
performs exactly one loop iteration).  At EVERY boundary k the checkpoint file is copied and the
complete essential state of the running sampler is digested part by part.  Then, for every k:
   load = memory        a sampler constructed from the file copy has the same essential state
   1/2-step bisimulation the resumed sampler, after one and two more batches, is in the reference
                        state k+1, k+2 (makes "a field that only matters later" matter now)
By induction over k this gives equality for every sequence of stops, at linear cost.
"""
import json
import os
import shutil
import warnings
import numpy as np

from . import common, tlc
from .families import Model
from .digest import digest, _norm

from nautilus import Sampler  # noqa: E402
from nautilus.bounds import NautilusBound  # noqa: E402

from .digest import bound_digest  # noqa: E402


def parts(s):
    """Essential state of a sampler as {group-ish part name: digest}; per shell and per bound."""
    p = {}
    for k in ('n_like', 'n_update_iter', 'n_like_iter'):
        p['counters/' + k] = digest(_norm(getattr(s, k, None)))
    for k in ('shell_n', 'shell_n_sample', 'shell_n_eff', 'shell_log_l', 'shell_log_v', 'shell_log_l_min'):
        p['stats/' + k] = digest(np.asarray(getattr(s, k)))
    for k in ('explored', '_discard_exploration'):
        p['flags/' + k] = digest(bool(getattr(s, k)))
    for k in ('shell_n_sample_exp', 'shell_end_exp'):
        p['flags/' + k] = digest(np.asarray(getattr(s, k)))
    p['flags/blobs_dtype'] = digest(None if s.blobs_dtype is None else str(np.dtype(s.blobs_dtype)))
    p['flags/n_shells'] = digest(len(s.points))
    for i in range(len(s.points)):
        bl = None if s.blobs is None else np.asarray(s.blobs[i])
        p['shell/%d' % i] = digest([np.asarray(s.points[i]), np.asarray(s.log_l[i]), bl])
    if not s.explored:
        for k in ('points_t', 'shell_t', 'log_l_t', 'blobs_t'):
            v = getattr(s, k, None)
            p['transfer/' + k] = digest(None if v is None else np.asarray(v))
    p['rng/state'] = digest(s.rng)
    # which objects draw from the sampler's generator: one shared stream in memory, and after a resume too
    p['rng/sharing'] = digest(rng_sharing(s))
    for i, b in enumerate(s.bounds):
        p['bound/%d' % i] = bound_digest(b)
    return p


def rng_sharing(s):
    """[(path, object's generator IS the sampler's generator)] for every nautilus object below s.bounds."""
    out = []

    def walk(o, path, depth=0):
        if depth > 6:
            return
        if hasattr(o, '__dict__') and type(o).__module__.startswith('nautilus'):
            if 'rng' in vars(o):
                out.append((path, vars(o)['rng'] is s.rng))
            for k in sorted(vars(o)):
                if k != 'rng':
                    walk(vars(o)[k], path + '.' + k, depth + 1)
        elif isinstance(o, list):
            for i, x in enumerate(o):
                walk(x, '%s[%d]' % (path, i), depth + 1)
    for i, b in enumerate(s.bounds):
        walk(b, 'bounds[%d]' % i)
    return [list(x) for x in out]


def diff(a, b):
    return sorted(k for k in set(a) | set(b) if a.get(k) != b.get(k))


def groups(diffkeys, written_shell):
    """part names -> abstract field groups of Checkpoint.tla, relative to the shell the update wrote."""
    g = set()
    for k in diffkeys:
        head, _, tail = k.partition('/')
        if head == 'shell':
            g.add('shell' if written_shell is not None and int(tail) == written_shell else 'others')
        elif head == 'bound':
            g.add('bound' if written_shell is not None and int(tail) == written_shell else 'bounds')
        elif head in ('counters', 'stats', 'flags', 'transfer', 'rng'):
            g.add(head)
        else:
            g.add('unknown:' + k)
    return sorted(g)


class CkSampler(Sampler):
    """Records which writer the code used (no other change)."""
    _kinds = None
    _wshell = None

    def write(self, *a, **k):
        r = super().write(*a, **k)
        if self._kinds is not None:
            self._kinds.append('full')
        return r

    def write_shell_update(self, filepath, shell):
        r = super().write_shell_update(filepath, shell)
        if self._kinds is not None:
            self._kinds.append('upd')
            self._wshell = shell if shell >= 0 else len(self.bounds) + shell
        return r


def make(cfg, model, path, resume, cls=CkSampler):
    from .history import full
    c = full(cfg)
    kw = dict(n_live=c['n_live'], n_batch=c['n_batch'], n_update=c['n_update'],
              n_like_new_bound=c['n_like_new_bound'], n_points_min=c['n_points_min'],
              n_networks=c['n_networks'], seed=c['seed'], enlarge_per_dim=c['enlarge_per_dim'],
              split_threshold=c['split_threshold'], filepath=path, resume=resume)
    if c['periodic'] is not None:
        kw['periodic'] = np.array(c['periodic'], dtype=int)
    if c['pool'] is not None:
        kw['pool'] = tuple(c['pool']) if isinstance(c['pool'], (list, tuple)) else c['pool']
    if c['n_networks'] > 0:
        kw['neural_network_kwargs'] = dict(hidden_layer_sizes=(8, 4), max_iter=60)
    kw.update(model.sampler_kwargs())
    return cls(model.prior(), model.likelihood, **kw)


def model_of(cfg):
    from .history import full
    c = full(cfg)
    return Model(kind=c['kind'], n_dim=c['n_dim'], K=c['K'], seed=c['mseed'], blob=c['blob'],
                 prior=c['prior'], vectorized=c['vectorized'], smooth=bool(cfg.get('smooth', False)))


def _close(s):
    from .history import close_pools
    close_pools(s)


def reference(cfg, d, max_boundaries=400):
    """Sliced reference run with checkpointing.  Returns list of boundary records."""
    from .history import full
    c = full(cfg)
    runkw = dict(c.get('runkw') or dict(n_eff=60, discard_exploration=True))
    model = model_of(c)
    path = os.path.join(d, 'ref.h5')
    s = make(c, model, path, resume=False)
    s._kinds = []
    recs = []
    prev = parts(s)
    done = False
    with warnings.catch_warnings(), common.cpu_limit(1800):
        warnings.simplefilter('ignore')
        while not done and len(recs) < max_boundaries:
            s._kinds = []
            s._wshell = None
            n0 = int(s.n_like)
            done = bool(s.run(n_like_max=n0 + 1, **runkw))
            if int(s.n_like) == n0:
                break
            cur = parts(s)
            k = len(recs) + 1
            fcopy = os.path.join(d, 'ck_%04d.h5' % k)
            shutil.copyfile(path, fcopy)
            recs.append(dict(k=k, n_like=int(s.n_like), kinds=list(s._kinds), wshell=s._wshell,
                             parts=cur, dirty=groups(diff(prev, cur), s._wshell), file=fcopy,
                             explored=bool(s.explored), tmp_left=os.path.exists(path + '.tmp')))
            prev = cur
    final = dict(n_like=int(s.n_like), done=done, log_z=s.log_z, n_eff=float(s.n_eff),
                 post=digest([np.asarray(x) for x in s.posterior()]), calls=len(model.calls))
    _close(s)
    return recs, final, runkw


def verify_boundary(args):
    """load = memory and 2-step bisimulation at boundary k (runs in a worker process)."""
    cfg, runkw, rec, nxt, d = args
    model = model_of(cfg)
    path = os.path.join(d, 'res_%04d_%d.h5' % (rec['k'], os.getpid()))
    shutil.copyfile(rec['file'], path)
    out = dict(k=rec['k'], loadDiff=[], step1Diff=[], step2Diff=[], dupCalls=0, error=None)
    s = None
    try:
        with warnings.catch_warnings(), common.cpu_limit(90):
            warnings.simplefilter('ignore')
            s = make(cfg, model, path, resume=True)
            out['loadDiff'] = groups(diff(rec['parts'], parts(s)), rec['wshell'])
            out['loadDiffParts'] = diff(rec['parts'], parts(s))
            for j, key in ((0, 'step1Diff'), (1, 'step2Diff')):
                if j >= len(nxt):
                    break
                s.run(n_like_max=int(s.n_like) + 1, **runkw)
                dd = diff(nxt[j]['parts'], parts(s))
                out[key] = groups(dd, nxt[j]['wshell'])
                out[key + 'Parts'] = dd
            seen = set()
            for c in model.calls:
                b = c.tobytes()
                if b in seen:
                    out['dupCalls'] += 1
                seen.add(b)
    except Exception as e:
        import traceback
        out['error'] = '%s: %s' % (type(e).__name__, e)
        out['traceback'] = traceback.format_exc()[-1200:]
    finally:
        if s is not None:
            _close(s)
        for p in (path, path + '.tmp'):
            if os.path.exists(p):
                os.unlink(p)
    return out


def unsliced(cfg, runkw, filepath=None, n_like_max=np.inf):
    model = model_of(cfg)
    s = make(cfg, model, filepath, resume=False, cls=Sampler)
    with warnings.catch_warnings():
        warnings.simplefilter('ignore')
        done = bool(s.run(n_like_max=n_like_max, **runkw))
        fin = dict(n_like=int(s.n_like), done=done, log_z=s.log_z, n_eff=float(s.n_eff),
                   post=digest([np.asarray(x) for x in s.posterior()]), calls=len(model.calls))
    _close(s)
    return fin


def check_config(cfg, d, stride=1):
    """Full C05 procedure for one configuration.  Returns (trace records, finals, problems)."""
    recs, final, runkw = reference(cfg, d)
    jobs = []
    for i, r in enumerate(recs):
        if i % stride == 0 or 'full' in r['kinds'] or (i > 0 and 'full' in recs[i - 1]['kinds']):
            jobs.append((cfg, runkw, r, recs[i + 1:i + 3], d))
    return recs, final, runkw, jobs


def trace_records(recs, results):
    byk = {r['k']: r for r in results}
    out = []
    for r in recs:
        v = byk.get(r['k'])
        if v is None:
            continue
        out.append(dict(k=r['k'], n_like=r['n_like'], kinds=r['kinds'], dirty=r['dirty'],
                        loadDiff=v['loadDiff'], step1Diff=v['step1Diff'], step2Diff=v['step2Diff'],
                        dupCalls=v['dupCalls']))
    return out


def validate_trace(path, n):
    cfg = path + '.cfg'
    tlc.write_cfg(cfg, spec='TSpec', constants=dict(Fields='<- RealFields', StepKinds='<- RealSteps',
                                                    UpdWritten='<- RealUpdWritten', MaxSnap=1, MaxCrash=0,
                                                    Protocol='TmpRename'), postcondition='Done')
    res = tlc.run_tlc('ResumeTrace', cfg, workers=1, timeout=300, env=dict(TRACE_FILE=path))
    os.unlink(cfg)
    fails, done = [], None
    for line in res.prints:
        v = tlc.parse_tla(line)
        if v[0] == '@@F':
            fails.append((int(v[1]), sorted(v[2][1]), int(v[3])))
        elif v[0] == '@@DONE':
            done = (int(v[1]), int(v[2]))
    if done is None or done[0] != done[1] or done[1] != n:
        raise tlc.TLCError('ResumeTrace did not consume the log (%s, n=%d):\n%s' % (done, n, res.out[-2000:]))
    return fails, res


def sliced_history(args):
    """A run cut into pieces at the given batch counts; piece i starts from a new sampler object
    resumed from the file when resume[i] is true, otherwise continues in memory."""
    cfg, runkw, stops, resume, d = args
    model = model_of(cfg)
    path = os.path.join(d, 'hist_%d.h5' % os.getpid())
    for p in (path, path + '.tmp'):
        if os.path.exists(p):
            os.unlink(p)
    from .history import full
    nb = full(cfg)['n_batch']
    s = make(cfg, model, path, resume=False, cls=Sampler)
    out = dict(stops=stops, resume=resume, error=None)
    try:
        with warnings.catch_warnings(), common.cpu_limit(1200):
            warnings.simplefilter('ignore')
            for k, r in zip(stops, resume):
                s.run(n_like_max=k * nb, **runkw)
                if r:
                    _close(s)
                    s = make(cfg, model, path, resume=True, cls=Sampler)
            done = bool(s.run(**runkw))
            out['final'] = dict(n_like=int(s.n_like), done=done, log_z=s.log_z, n_eff=float(s.n_eff),
                                post=digest([np.asarray(x) for x in s.posterior()]), calls=len(model.calls))
            seen = set(c.tobytes() for c in model.calls)
            out['dup'] = len(model.calls) - len(seen)
    except Exception as e:
        out['error'] = '%s: %s' % (type(e).__name__, e)
    finally:
        _close(s)
        for p in (path, path + '.tmp'):
            if os.path.exists(p):
                os.unlink(p)
    return out
