"""C06: kill a checkpointed run at chosen system calls (strace fault injection) and examine the file."""
import json
import os
import re
import shutil
import subprocess
import sys
import warnings

from . import common, tlc

PY = sys.executable
TRACE_SET = 'openat,open,creat,close,pwrite64,write,pwritev,ftruncate,fallocate,sendfile,copy_file_range,' \
            'rename,renameat,renameat2,unlink,unlinkat,pread64,read,lseek,fstat,newfstatat,flock,fsync,fdatasync'
MUTATING = {'pwrite64', 'write', 'pwritev', 'ftruncate', 'fallocate'}


def _env():
    e = dict(os.environ)
    e['PYTHONPATH'] = common.VERIF + os.pathsep + e.get('PYTHONPATH', '')
    e['NAUTILUS_VERIF_REPO'] = common.REPO
    return e


def child_cmd(cfgpath, d, mode):
    return [PY, '-m', 'harness.ckchild', cfgpath, d, mode]


def reference(cfg, d):
    """Reference run under strace (no fault): syscall log + content digest after each completed checkpoint."""
    os.makedirs(d, exist_ok=True)
    cfgpath = os.path.join(d, 'cfg.json')
    json.dump(cfg, open(cfgpath, 'w'))
    main = os.path.join(d, cfg.get('relpath', 'ck.h5'))
    trace = os.path.join(d, 'strace.txt')
    cmd = ['strace', '-f', '-y', '-o', trace, '-e', 'trace=' + TRACE_SET, '-P', main, '-P', main + '.tmp'] + \
        child_cmd(cfgpath, d, 'ref')
    p = subprocess.run(cmd, cwd=common.VERIF, env=_env(), stdout=subprocess.PIPE, stderr=subprocess.STDOUT,
                       text=True, timeout=900)
    if p.returncode != 0:
        raise RuntimeError('reference child failed:\n' + p.stdout[-2000:])
    snaps = [json.loads(x) for x in open(os.path.join(d, 'snapshots.jsonl'))]
    # second run in the mode the kills use (no digest reads by the harness): this log is validated
    # against CheckpointIO.tla and its length is the number of kill points
    d2 = os.path.join(d, 'plain')
    os.makedirs(d2)
    main2 = os.path.join(d2, cfg.get('relpath', 'ck.h5'))
    trace2 = os.path.join(d2, 'strace.txt')
    cmd = ['strace', '-f', '-y', '-o', trace2, '-e', 'trace=' + TRACE_SET, '-P', main2, '-P', main2 + '.tmp'] + \
        child_cmd(cfgpath, d2, 'kill')
    p = subprocess.run(cmd, cwd=common.VERIF, env=_env(), stdout=subprocess.PIPE, stderr=subprocess.STDOUT,
                       text=True, timeout=900)
    if p.returncode != 0:
        raise RuntimeError('plain child failed:\n' + p.stdout[-2000:])
    events = parse_strace(trace2, main2)
    return snaps, events


_LINE = re.compile(r'^(\d+)\s+(\w+)\((.*)\)\s+=\s+(-?\d+|\?)(.*)$')


def parse_strace(path, main):
    tmp = main + '.tmp'

    def role(p):
        return 'main' if p == main else ('tmp' if p == tmp else 'other')
    ev = []
    n = 0
    for line in open(path, errors='replace'):
        m = _LINE.match(line.rstrip('\n'))
        if not m:
            continue
        n += 1
        pid, sc, args, ret, rest = m.groups()
        ret_i = int(ret) if ret != '?' else 0
        e = dict(n=n, sc=sc, ev='noop', file='other', fd=-1, mode='', src='', dst='')
        fds = re.findall(r'(\d+)<([^>]*)>', args)
        if sc in ('openat', 'open', 'creat'):
            pm = re.search(r'"([^"]*)"', args)
            if pm and ret_i >= 0:
                flags = args[pm.end():]
                e['file'] = role(pm.group(1))
                e['fd'] = ret_i
                e['ev'] = 'open'
                if 'O_CREAT' in flags or 'O_TRUNC' in flags or sc == 'creat':
                    e['mode'] = 'create'
                elif 'O_RDWR' in flags or 'O_WRONLY' in flags or 'O_APPEND' in flags:
                    e['mode'] = 'rw'
                else:
                    e['mode'] = 'ro'
        elif sc in MUTATING:
            if fds:
                e.update(ev='write', file=role(fds[0][1]), fd=int(fds[0][0]))
        elif sc in ('sendfile', 'copy_file_range'):
            if fds:
                e.update(ev='write', file=role(fds[0][1]), fd=int(fds[0][0]))
                if sc == 'copy_file_range' and len(fds) > 1:
                    e.update(file=role(fds[1][1]), fd=int(fds[1][0]))
        elif sc == 'close':
            if fds:
                e.update(ev='close', file=role(fds[0][1]), fd=int(fds[0][0]))
        elif sc in ('rename', 'renameat', 'renameat2'):
            ps = re.findall(r'"([^"]*)"', args)
            if len(ps) >= 2 and ret_i == 0:
                e.update(ev='rename', src=role(ps[0]), dst=role(ps[1]))
        elif sc in ('unlink', 'unlinkat'):
            ps = re.findall(r'"([^"]*)"', args)
            if ps and ret_i == 0:
                e.update(ev='unlink', file=role(ps[-1]))
        ev.append(e)
    return ev


def pristine_end(args):
    """Continue the run from a pristine copy of checkpoint i (no stale temporary file around) to the end;
    returns the content digest of the final file: the oracle for what a re-run after a kill must produce."""
    cfg, refdir, base, i = args
    from .h5walk import content_digest
    d = os.path.join(base, 'pristine_%04d' % i)
    os.makedirs(d, exist_ok=True)
    os.makedirs(os.path.dirname(os.path.join(d, cfg.get('relpath', 'ck.h5'))), exist_ok=True)
    shutil.copyfile(os.path.join(refdir, 'snap_%04d.h5' % i), os.path.join(d, cfg.get('relpath', 'ck.h5')))
    cfgpath = os.path.join(d, 'cfg.json')
    json.dump(cfg, open(cfgpath, 'w'))
    rc = subprocess.run(child_cmd(cfgpath, d, 'resume'), cwd=common.VERIF, env=_env(),
                        stdout=subprocess.PIPE, stderr=subprocess.STDOUT, text=True, timeout=900)
    out = (i, content_digest(os.path.join(d, cfg.get('relpath', 'ck.h5'))) if rc.returncode == 0 else 'resume-of-pristine-failed')
    shutil.rmtree(d, ignore_errors=True)
    return out


def kill_points(events):
    """event number -> (syscall name, ordinal of that event among the events of the same syscall)."""
    cnt, out = {}, {}
    for e in events:
        cnt[e['sc']] = cnt.get(e['sc'], 0) + 1
        out[e['n']] = (e['sc'], cnt[e['sc']])
    return out


def validate_io(events, scratch):
    """strace log -> CheckpointIO.tla.  Returns (fails, TLCResult)."""
    path = os.path.join(scratch, 'io_trace.json')
    json.dump(events, open(path, 'w'))
    cfg = os.path.join(scratch, 'io.cfg')
    tlc.write_cfg(cfg, spec='Spec', properties=['MainStays'], postcondition='Done')
    res = tlc.run_tlc('CheckpointIO', cfg, workers=1, timeout=600, env=dict(TRACE_FILE=path))
    fails, done = [], None
    for line in res.prints:
        v = tlc.parse_tla(line)
        if v[0] == '@@F':
            fails.append((int(v[1]), sorted(v[2][1]), int(v[3])))
        elif v[0] == '@@DONE':
            done = (int(v[1]), int(v[2]))
    mainstays = res.violated
    if mainstays is None and (done is None or done[0] != done[1] or done[1] != len(events)):
        raise tlc.TLCError('CheckpointIO did not consume the log: %s\n%s' % (done, res.out[-2000:]))
    return fails, mainstays, res


def kill_at(args):
    """Run the child, kill it at the N-th traced system call, inspect what is left."""
    cfg, base, n, snaps_digests, do_resume, sc, k, pristine = args
    from .h5walk import content_digest
    d = os.path.join(base, 'kill_%05d' % n)
    os.makedirs(d, exist_ok=True)
    cfgpath = os.path.join(d, 'cfg.json')
    json.dump(cfg, open(cfgpath, 'w'))
    main = os.path.join(d, cfg.get('relpath', 'ck.h5'))
    cmd = ['strace', '-f', '-o', '/dev/null', '-e', 'trace=' + TRACE_SET,
           # strace counts invocations PER SYSCALL: kill at the k-th invocation of syscall sc (= event n of the log)
           '-e', 'inject=%s:signal=SIGKILL:when=%d' % (sc, k),
           '-P', main, '-P', main + '.tmp'] + child_cmd(cfgpath, d, 'kill')
    p = subprocess.run(cmd, cwd=common.VERIF, env=_env(), stdout=subprocess.PIPE, stderr=subprocess.STDOUT,
                       text=True, timeout=900)
    out = dict(n=n, sc=sc, k=k, killed=False, completed=0, problem=None, detail='', resumed=None)
    prog = []
    pp = os.path.join(d, 'progress.log')
    if os.path.exists(pp):
        prog = [x.split() for x in open(pp).read().splitlines() if x.strip()]
    ended = any(x[0] == 'END' for x in prog)
    out['completed'] = j = len([x for x in prog if x[0] != 'END'])
    out['killed'] = (not ended)
    if ended:
        shutil.rmtree(d, ignore_errors=True)
        return out                # the run finished before the N-th call
    # (1) once a first checkpoint has been completed the file must exist
    if not os.path.exists(main):
        if j >= 1:      # before the first checkpoint is complete there need not be a file
            out['problem'] = 'missing'
            out['detail'] = 'checkpoint file missing after %d completed checkpoints' % j
    else:
        try:
            dg = content_digest(main)
        except Exception as e:
            # (the statement tolerates an unreadable file only before a first checkpoint exists)
            out['problem'] = 'unreadable' if j >= 1 else None
            out['detail'] = 'file cannot be read after kill (%d completed checkpoints): %s: %s' % (
                j, type(e).__name__, str(e)[:200])
            dg = None
        if dg is not None:
            allowed = [snaps_digests[i] for i in (j - 1, j) if 0 <= i < len(snaps_digests)]
            if dg not in allowed:
                where = [i + 1 for i, x in enumerate(snaps_digests) if x == dg]
                out['problem'] = 'mixed' if not where else 'wrong-snapshot'
                out['detail'] = 'content after kill is not checkpoint %d or %d of the reference run (matches %s)' % (
                    j, j + 1, where or 'none: a mixture of states')
        # (2) restarting the same script continues: constructor + a few batches must work
        if out['problem'] is None and do_resume and dg is not None:
            # the same script is run again: it must continue from the file (a stale temporary file is still
            # lying around) and END in exactly the state the uninterrupted reference run ended in
            rc = subprocess.run(child_cmd(cfgpath, d, 'resume'), cwd=common.VERIF, env=_env(),
                                stdout=subprocess.PIPE, stderr=subprocess.STDOUT, text=True, timeout=900)
            out['resumed'] = rc.returncode == 0
            if rc.returncode != 0:
                out['problem'] = 'resume-fails'
                out['detail'] = 'Sampler(resume=True).run() fails on the file left by the kill: ' + rc.stdout[-400:]
            else:
                try:
                    fin = content_digest(main)
                except Exception as e:
                    fin = 'unreadable: %s' % e
                # (the end state need not be that of the uninterrupted run: a kill between the last exploration
                # update and the end-of-exploration write legitimately resumes with one more exploration batch)
                which = snaps_digests.index(dg) + 1
                if fin != pristine.get(which):
                    out['problem'] = 'resume-diverges'
                    out['detail'] = ('the file left by the kill equals checkpoint %d, but re-running the script on it (stale '
                                     'temporary file present) ends in a different state than continuing from a pristine '
                                     'copy of checkpoint %d' % (which, which))
    shutil.rmtree(d, ignore_errors=True)
    return out
