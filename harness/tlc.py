"""Run TLC (model checking, simulation, trace validation) and parse what it says.

Everything TLC-related goes through this module so that a machinery failure
(TLC cannot parse, Java missing, timeout) is always distinguishable from a
verdict: functions raise TLCError for the former.
"""
import json
import os
import re
import shutil
import subprocess
import tempfile
import time

JAR = '/opt/veriftools/tla/tla2tools.jar'
DEPS = '/opt/veriftools/tla/CommunityModules-deps.jar'
SPEC_DIR = os.path.join(os.path.dirname(os.path.dirname(os.path.abspath(__file__))), 'spec')


class TLCError(Exception):
    """TLC itself failed (not a property verdict)."""


class TLCResult:
    def __init__(self):
        self.ok = False            # finished without any violation
        self.violated = None       # name of violated invariant / property, if any
        self.kind = None           # 'invariant' | 'property' | 'deadlock' | 'postcondition' | 'eval'
        self.states = 0            # distinct states
        self.generated = 0         # states generated (transitions explored)
        self.depth = 0
        self.wall_s = 0.0
        self.out = ''
        self.prints = []           # values printed with PrintT (raw strings)
        self.coverage = {}         # action name -> (distinct, total)
        self.error_trace = []      # list of raw state strings
        self.timeout = False

    def brief(self):
        return dict(ok=self.ok, violated=self.violated, kind=self.kind, states=self.states,
                    transitions=self.generated, depth=self.depth, wall_s=round(self.wall_s, 2))


def _java_cmd(extra_props=(), heap=None):
    cmd = ['java', '-XX:+UseParallelGC']
    if heap:
        cmd.append('-Xmx' + heap)
    cmd += list(extra_props)
    cmd += ['-cp', JAR + ':' + DEPS, 'tlc2.TLC']
    return cmd


def run_tlc(module, cfg, workers=1, timeout=600, env=None, coverage=False,
            simulate=None, depth=None, seed=None, extra=(), spec_dir=None,
            dfs=False, heap=None, deadlock=None):
    """Run TLC on spec_dir/module.tla with configuration file `cfg` (path).

    simulate: None or string like 'num=100' / 'file=/x/tr,num=10'.
    Returns TLCResult.  Raises TLCError on a machinery failure.
    """
    spec_dir = spec_dir or SPEC_DIR
    meta = tempfile.mkdtemp(prefix='tlcmeta_')
    props = ['-Djava.io.tmpdir=' + meta]      # TLC leaves an empty tlc-<n> directory per run in java.io.tmpdir
    if dfs:
        props.append('-Dtlc2.tool.queue.IStateQueue=StateDeque')
    cmd = _java_cmd(props, heap) + ['-workers', str(workers), '-metadir', meta,
                                    '-noGenerateSpecTE', '-config', cfg]
    if coverage:
        cmd += ['-coverage', '1']
    if simulate is not None:
        cmd += ['-simulate', simulate] if simulate else ['-simulate']
    if depth is not None:
        cmd += ['-depth', str(depth)]
    if seed is not None:
        cmd += ['-seed', str(seed)]
    if deadlock is False:
        cmd += ['-deadlock']
    cmd += list(extra)
    cmd.append(module)
    e = dict(os.environ)
    if env:
        e.update({k: str(v) for k, v in env.items()})
    t0 = time.time()
    res = TLCResult()
    try:
        p = subprocess.run(cmd, cwd=spec_dir, env=e, stdout=subprocess.PIPE,
                           stderr=subprocess.STDOUT, timeout=timeout, text=True)
        out = p.stdout
        rc = p.returncode
    except subprocess.TimeoutExpired as ex:
        out = ex.stdout if isinstance(ex.stdout, str) else (ex.stdout or b'').decode('utf8', 'replace')
        rc = -9
        res.timeout = True
        subprocess.run(['pkill', '-f', meta], stdout=subprocess.DEVNULL, stderr=subprocess.DEVNULL)
    finally:
        shutil.rmtree(meta, ignore_errors=True)
    res.wall_s = time.time() - t0
    res.out = out
    _parse(res, out, rc)
    return res


_RE_STATES = re.compile(r'(\d+) states generated, (\d+) distinct states found')
_RE_DEPTH = re.compile(r'The depth of the complete state graph search is (\d+)')
_RE_INV = re.compile(r'Error: Invariant (\S+) is violated')
_RE_PROP = re.compile(r'Error: Action property (\S+) is violated')
_RE_COV = re.compile(r'^<(\w+) line \d+, col \d+ to line \d+, col \d+ of module (\w+)(?: \((\d+) \d+ \d+ \d+\))?>: (\d+):(\d+)', re.M)


def _parse(res, out, rc):
    m = None
    for m in _RE_STATES.finditer(out):
        pass
    if m:
        res.generated, res.states = int(m.group(1)), int(m.group(2))
    m = _RE_DEPTH.search(out)
    if m:
        res.depth = int(m.group(1))
    for m in _RE_COV.finditer(out):
        # disjuncts of Next that are not a named action of their own show as  <Next ... (line col line col)>
        name = m.group(1) if not m.group(3) else '%s@line%s' % (m.group(1), m.group(3))
        res.coverage[name] = (int(m.group(4)), int(m.group(5)))
    res.prints = _extract_prints(out)
    m = _RE_INV.search(out)
    if m:
        res.violated, res.kind = m.group(1), 'invariant'
    else:
        m = _RE_PROP.search(out)
        if m:
            res.violated, res.kind = m.group(1), 'property'
        elif 'Temporal properties were violated' in out:
            res.violated, res.kind = 'temporal', 'property'
        elif 'Error: Deadlock reached' in out:
            res.violated, res.kind = 'deadlock', 'deadlock'
        elif re.search(r'Error: The postcondition .* is violated|postcondition.*violated', out, re.I):
            res.violated, res.kind = 'postcondition', 'postcondition'
    if res.violated:
        res.error_trace = re.findall(r'^State \d+:.*?(?=^State \d+:|\Z|^\d+ states generated)', out, re.M | re.S)
        return
    if res.timeout:
        return
    if 'Model checking completed. No error has been found.' in out or \
            (rc == 0 and 'Error:' not in out):
        res.ok = True
        return
    # simulation mode that was stopped by num= limit prints "Finished" lines only
    if rc == 0:
        res.ok = True
        return
    tail = out[-3000:]
    raise TLCError('TLC failed (rc=%s):\n%s' % (rc, tail))


def _extract_prints(out):
    """Values printed with PrintT(<<"@@TAG", ...>>): found by bracket matching (TLC may wrap lines)."""
    vals = []
    i = 0
    marker = re.compile(r'<<\s*"@@')
    while True:
        mm = marker.search(out, i)
        if not mm:
            break
        i = mm.start()
        depth, j, instr = 0, i, False
        while j < len(out):
            c = out[j]
            if instr:
                if c == '\\':
                    j += 1
                elif c == '"':
                    instr = False
            elif c == '"':
                instr = True
            elif out.startswith('<<', j):
                depth += 1
                j += 1
            elif out.startswith('>>', j):
                depth -= 1
                j += 1
                if depth == 0:
                    break
            j += 1
        vals.append(out[i:j + 1])
        i = j + 1
    return vals


def sany(module, spec_dir=None):
    spec_dir = spec_dir or SPEC_DIR
    p = subprocess.run(['java', '-cp', JAR + ':' + DEPS, 'tla2sany.SANY', module],
                       cwd=spec_dir, stdout=subprocess.PIPE, stderr=subprocess.STDOUT, text=True)
    ok = p.returncode == 0 and 'Semantic errors' not in p.stdout and 'Parse Error' not in p.stdout \
        and 'Could not' not in p.stdout and '*** Errors' not in p.stdout
    return ok, p.stdout


def write_cfg(path, spec=None, init=None, next_=None, constants=None, invariants=(), properties=(),
              postcondition=None, alias=None, constraint=None, view=None, deadlock=False,
              action_constraint=None, symmetry=None):
    lines = []
    if spec:
        lines.append('SPECIFICATION %s' % spec)
    if init:
        lines.append('INIT %s' % init)
    if next_:
        lines.append('NEXT %s' % next_)
    if constants:
        lines.append('CONSTANTS')
        for k, v in constants.items():
            lines.append('  %s' % _const(k, v))
    for i in invariants:
        lines.append('INVARIANT %s' % i)
    for p in properties:
        lines.append('PROPERTY %s' % p)
    if postcondition:
        lines.append('POSTCONDITION %s' % postcondition)
    if alias:
        lines.append('ALIAS %s' % alias)
    if constraint:
        lines.append('CONSTRAINT %s' % constraint)
    if action_constraint:
        lines.append('ACTION_CONSTRAINT %s' % action_constraint)
    if view:
        lines.append('VIEW %s' % view)
    if symmetry:
        lines.append('SYMMETRY %s' % symmetry)
    lines.append('CHECK_DEADLOCK %s' % ('TRUE' if deadlock else 'FALSE'))
    with open(path, 'w') as f:
        f.write('\n'.join(lines) + '\n')
    return path


def _const(k, v):
    if isinstance(v, str) and v.startswith('<-'):
        return '%s %s' % (k, v)
    return '%s = %s' % (k, tla_value(v))


def tla_value(v):
    if isinstance(v, bool):
        return 'TRUE' if v else 'FALSE'
    if isinstance(v, int):
        return str(v)
    if isinstance(v, str):
        return '"%s"' % v
    if isinstance(v, (set, frozenset)):
        return '{' + ', '.join(tla_value(x) for x in sorted(v, key=lambda x: (str(type(x)), x))) + '}'
    if isinstance(v, (list, tuple)):
        return '<<' + ', '.join(tla_value(x) for x in v) + '>>'
    raise TypeError(v)


# ---------------------------------------------------------------------------
# Parsing TLA+ values printed by TLC (records, sequences, sets, strings, ints, booleans)
# ---------------------------------------------------------------------------
class _P:
    def __init__(self, s):
        self.s = s
        self.i = 0

    def ws(self):
        while self.i < len(self.s) and self.s[self.i] in ' \t\r\n':
            self.i += 1

    def peek(self, k=1):
        return self.s[self.i:self.i + k]

    def expect(self, t):
        self.ws()
        if not self.s.startswith(t, self.i):
            raise ValueError('expected %r at %d: %r' % (t, self.i, self.s[self.i:self.i + 30]))
        self.i += len(t)

    def value(self):
        self.ws()
        c = self.peek()
        if self.s.startswith('<<', self.i):
            self.i += 2
            out = []
            self.ws()
            if self.s.startswith('>>', self.i):
                self.i += 2
                return out
            while True:
                out.append(self.value())
                self.ws()
                if self.s.startswith('>>', self.i):
                    self.i += 2
                    return out
                self.expect(',')
        if c == '{':
            self.i += 1
            out = []
            self.ws()
            if self.peek() == '}':
                self.i += 1
                return ('set', out)
            while True:
                out.append(self.value())
                self.ws()
                if self.peek() == '}':
                    self.i += 1
                    return ('set', out)
                self.expect(',')
        if c == '[':
            self.i += 1
            out = {}
            while True:
                self.ws()
                m = re.compile(r'[A-Za-z_][A-Za-z_0-9]*').match(self.s, self.i)
                key = m.group(0)
                self.i = m.end()
                self.expect('|->')
                out[key] = self.value()
                self.ws()
                if self.peek() == ']':
                    self.i += 1
                    return out
                self.expect(',')
        if c == '(':
            # function displayed as (a :> x @@ b :> y)
            self.i += 1
            out = {}
            while True:
                k = self.value()
                self.expect(':>')
                v = self.value()
                out[k if not isinstance(k, list) else tuple(k)] = v
                self.ws()
                if self.peek() == ')':
                    self.i += 1
                    return ('fn', out)
                self.expect('@@')
        if c == '"':
            j = self.i + 1
            buf = []
            while self.s[j] != '"':
                if self.s[j] == '\\':
                    j += 1
                buf.append(self.s[j])
                j += 1
            self.i = j + 1
            return ''.join(buf)
        m = re.compile(r'-?\d+').match(self.s, self.i)
        if m:
            self.i = m.end()
            return int(m.group(0))
        m = re.compile(r'TRUE|FALSE').match(self.s, self.i)
        if m:
            self.i = m.end()
            return m.group(0) == 'TRUE'
        m = re.compile(r'[A-Za-z_][A-Za-z_0-9]*').match(self.s, self.i)
        if m:
            self.i = m.end()
            return ('mv', m.group(0))
        raise ValueError('cannot parse at %d: %r' % (self.i, self.s[self.i:self.i + 40]))


def parse_tla(s):
    p = _P(s)
    v = p.value()
    return v


def parse_state(text):
    """Parse a TLC state ('/\\ x = v' conjunct list) into dict var -> value."""
    out = {}
    parts = re.split(r'^/\\ ', text, flags=re.M)
    for part in parts:
        m = re.match(r'(\w+) = (.*)', part, re.S)
        if m:
            try:
                out[m.group(1)] = parse_tla(m.group(2).strip())
            except Exception:
                out[m.group(1)] = m.group(2).strip()
    return out


def parse_sim_file(path):
    """Parse a behaviour file written by `-simulate file=...`.

    Returns list of (action_name, state_dict).
    """
    txt = open(path).read()
    steps = []
    for m in re.finditer(r'\\\* <?(\w+)[^\n]*\nSTATE_(\d+) ==\s*\n(.*?)(?=\n\n|\Z)', txt, re.S):
        steps.append((m.group(1), parse_state(m.group(3))))
    return steps
