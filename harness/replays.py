"""./check <id> --replay <path> for the checks whose failing case is not a sampler history.

The replay file holds the failing input (operation sequence, declaration edge, boundary, kill point, record) as
written by the run that found it.  All these checks are deterministic functions of (tree, VERIF_SEED, tier), so the
case is re-created by re-running the check; the saved description tells what to look for in its output."""
import json

from . import registry


def replay(prop, obj, tier, seed):
    print('saved failing case of %s:' % prop)
    print(json.dumps(obj.get('replay'), indent=1, default=str)[:3000])
    print('re-running ./check %s (tier %s, seed %d) on the current tree ...' % (prop, tier, seed))
    return registry.CHECKS[prop](prop, tier, seed)
