"""setup_cmd: parse every specification with SANY (offline, from files on disk only)."""
import glob
import os
from . import common, tlc


def main():
    bad = 0
    for p in sorted(glob.glob(os.path.join(common.SPEC, '*.tla'))):
        mod = os.path.basename(p)[:-4]
        ok, out = tlc.sany(mod)
        print('SANY %-18s %s' % (mod, 'ok' if ok else 'FAILED'))
        if not ok:
            print(out[-1500:])
            bad += 1
    import numpy, scipy, sklearn, h5py  # noqa
    import nautilus
    print('nautilus from', os.path.dirname(nautilus.__file__))
    return 2 if bad else 0
