"""C05 (resume equivalence) and C06 (atomic checkpoint under kill)."""
import json
import os
import random

from . import common, tlc, ckpt


def ck_cfg(path, fields, steps, upd, max_snap, max_crash, protocol, invs=('Atomic', 'Recent', 'BoundaryEqual', 'Restartable')):
    return tlc.write_cfg(path, spec='Spec', constants=dict(
        Fields='<- ' + fields, StepKinds='<- ' + steps, UpdWritten='<- ' + upd, MaxSnap=max_snap,
        MaxCrash=max_crash, Protocol=protocol), invariants=list(invs))


def model_check_checkpoint(rep, tier, scratch, want=('tr3', 'trreal')):
    table = dict(
        tr3=('F3', 'Steps3', 'Upd3', 4 if tier == 'quick' else 5, 2, 'TmpRename', True),
        trreal=('RealFields', 'RealSteps', 'RealUpdWritten', 3 if tier == 'quick' else 4, 1, 'TmpRename', True),
        ip3=('F3', 'Steps3', 'Upd3', 4, 2, 'InPlace', False),
        norng=('RealFields', 'RealSteps', 'NoRngUpdWritten', 3, 0, 'TmpRename', False),
        eeupd=('RealFields', 'EndExpAsUpdate', 'RealUpdWritten', 3, 0, 'TmpRename', False))
    for name in want:
        f, st, u, ms, mc, proto, should_hold = table[name]
        cfg = os.path.join(scratch, 'ck_%s.cfg' % name)
        ck_cfg(cfg, f, st, u, ms, mc, proto)
        res = tlc.run_tlc('Checkpoint', cfg, workers=common.NCPU, timeout=900)
        rep.add_tlc(res, 'Checkpoint.tla/' + name)
        if should_hold and not res.ok:
            rep.violation('spec:Checkpoint:%s:%s' % (name, res.violated),
                          'Checkpoint.tla (%s) violates %s' % (name, res.violated), dict(out=res.out[-3000:]))
        if not should_hold:
            if res.ok:
                raise tlc.TLCError('negative configuration %s was NOT rejected by TLC: invariants are vacuous' % name)
            rep.notes.append('negative configuration %s rejected as expected (%s)' % (name, res.violated))


def c05_matrix(seed, tier):
    s = seed
    m = [
        dict(kind='gauss', seed=31 + s, mseed=s, n_batch=4, n_live=20),
        dict(kind='two', n_networks=1, blob='multi', seed=32 + s, mseed=s, n_batch=4, n_live=20),
        dict(kind='plateau', blob='float', seed=33 + s, mseed=s, n_batch=5, n_live=20,
             runkw=dict(n_eff=60, discard_exploration=False)),
        dict(kind='wrap', periodic=[0], n_networks=2, blob='array', seed=34 + s, mseed=s, n_batch=4, n_live=20),
        dict(kind='gauss', prior='Prior', vectorized=True, blob='struct', seed=35 + s, mseed=s, n_batch=3, n_live=18,
             runkw=dict(n_eff=60, discard_exploration=True, n_shell=8)),
        dict(kind='two', pool=[None, 2], periodic=[0, 1], blob='bytes', seed=36 + s, mseed=s, n_batch=4, n_live=20,
             n_networks=1),
        # many proposals per bound: the per-bound proposal caches (1000 points after construction) are
        # exhausted and refilled between two full writes, so the incremental update must carry them
        dict(kind='gauss', n_batch=40, n_live=40, n_points_min=6, seed=37 + s, mseed=s,
             runkw=dict(n_shell=800, n_eff=100, discard_exploration=True)),
        # tiny live set: the unit-cube shell is emptied by transfers and REMOVED at the end of exploration, so the
        # first stored bound is no longer the unit cube (fixed seeds: the situation depends on them)
        dict(kind='gauss', smooth=True, n_live=10, n_update=1, n_batch=1, n_points_min=4, seed=0, mseed=0,
             runkw=dict(n_eff=30, discard_exploration=False)),
        dict(kind='two', smooth=True, n_live=10, n_update=1, n_batch=1, n_points_min=4, seed=0, mseed=0, blob='float',
             runkw=dict(n_eff=30, discard_exploration=True)),
    ]
    if tier == 'thorough':
        for r in range(1, 4):
            m += [
                dict(kind='ring', n_networks=2, blob='f32', seed=40 + s + 10 * r, mseed=s + r, n_batch=4, n_live=24),
                dict(kind='funnel', n_dim=3, n_points_min=5, blob='bool2', seed=41 + s + 10 * r, mseed=s + r,
                     n_batch=6, n_live=24),
                dict(kind='gauss', prior='inplace', blob='int', seed=42 + s + 10 * r, mseed=s + r, n_batch=1, n_live=10,
                     n_points_min=3, runkw=dict(n_eff=30, discard_exploration=True)),
                dict(kind='plateau', prior='PriorArr', blob='multi', seed=43 + s + 10 * r, mseed=s + r, n_batch=4,
                     n_live=20, n_networks=1, runkw=dict(n_eff=60, discard_exploration=False, n_shell=10)),
                dict(kind='two', pool=2, blob='float', seed=44 + s + 10 * r, mseed=s + r, n_batch=4, n_live=20),
                dict(kind='wrap', periodic=[0], pool=[None, 2], seed=45 + s + 10 * r, mseed=s + r, n_batch=4, n_live=20),
                dict(kind='two', n_batch=40, n_live=40, n_points_min=6, seed=46 + s + 10 * r, mseed=s + r, n_networks=1,
                     pool=[None, 2] if r % 2 else None, runkw=dict(n_shell=700, n_eff=100, discard_exploration=False)),
            ]
    return m


def _key(c):
    return ','.join('%s=%s' % (k, c[k]) for k in ('kind', 'blob', 'prior', 'vectorized', 'n_batch', 'n_networks',
                                                   'periodic', 'pool') if k in c)


def _c05_reference(args):
    cfg, d = args
    return ckpt.check_config(cfg, d)


def _c05_unsliced(args):
    cfg, runkw = args
    return ckpt.unsliced(cfg, runkw)


def check_c05(prop, tier, seed):
    rep = common.Report(prop, tier, seed)
    scratch = common.scratch('c05_')
    try:
        model_check_checkpoint(rep, tier, scratch, want=('tr3', 'trreal', 'norng', 'eeupd'))
        rnd = random.Random(seed)
        total_b = 0
        matrix = c05_matrix(seed, tier)
        dirs = []
        for ci in range(len(matrix)):
            d = os.path.join(scratch, 'cfg%d' % ci)
            os.makedirs(d)
            dirs.append(d)
        # phase 1: all sliced reference runs in parallel; phase 2: every boundary of every configuration
        refs = common.pmap(_c05_reference, list(zip(matrix, dirs)))
        alljobs, owner = [], []
        for ci, (recs, final, runkw, jobs) in enumerate(refs):
            alljobs += jobs
            owner += [ci] * len(jobs)
        allres = common.pmap(ckpt.verify_boundary, alljobs)
        hjobs_all, howner = [], []
        for ci, cfg in enumerate(matrix):
            nb = len(refs[ci][0])
            hj = []
            for h in range(2 if tier == 'quick' else 6):
                ks = sorted(rnd.sample(range(1, max(2, nb)), min(3, max(1, nb - 1))))
                hj.append((cfg, refs[ci][2], ks, [rnd.random() < 0.7 for _ in ks], dirs[ci]))
            hjobs_all += hj
            howner += [ci] * len(hj)
        uns = common.pmap(_c05_unsliced, [(cfg, refs[ci][2]) for ci, cfg in enumerate(matrix)])
        hres = common.pmap(ckpt.sliced_history, hjobs_all)
        for ci, cfg in enumerate(matrix):
            d = dirs[ci]
            recs, final, runkw, jobs = refs[ci]
            results = [r for r, o in zip(allres, owner) if o == ci]
            key = _key(cfg)
            errs = [r for r in results if r['error']]
            if errs:
                rep.violation('%s:resume-raises:%s' % (key, errs[0]['error'].split(':')[0]),
                              'resuming at boundary %d raises %s [config %s]' % (errs[0]['k'], errs[0]['error'], json.dumps(cfg)),
                              dict(cfg=cfg, boundary=errs[0]['k'], error=errs[0]))
            tr = ckpt.trace_records(recs, [r for r in results if not r['error']])
            tp = os.path.join(d, 'resume_trace.json')
            json.dump(tr, open(tp, 'w'))
            fails, res = ckpt.validate_trace(tp, len(tr))
            rep.coverage['transitions'] += len(tr)
            total_b += len(tr)
            if fails:
                step, names, k = fails[0]
                bad = [r for r in results if r['k'] == k][0]
                rep.violation('%s:%s' % (key, '+'.join(sorted(set(n for _, ns, _ in fails for n in ns)))),
                              'boundary %d (of %d): %s; differing parts: load=%s step1=%s step2=%s [config %s]' % (
                                  k, len(recs), names, bad.get('loadDiffParts'), bad.get('step1DiffParts'),
                                  bad.get('step2DiffParts'), json.dumps(cfg)),
                              dict(cfg=cfg, runkw=runkw, boundary=k, failing=fails[:10]))
            else:
                rep.coverage['traces_validated_against_impl'] += 1
            finals = [('uninterrupted,no file', uns[ci])]
            hjobs = [hj for hj, o in zip(hjobs_all, howner) if o == ci]
            for hj, out in zip(hjobs, [r for r, o in zip(hres, howner) if o == ci]):
                if out['error']:
                    rep.violation('%s:history-raises' % key, 'history %s raises %s' % (hj[2:4], out['error']),
                                  dict(cfg=cfg, stops=hj[2], resume=hj[3]))
                    continue
                finals.append(('stops=%s resume=%s' % (hj[2], hj[3]), out['final']))
                if out['dup']:
                    rep.violation('%s:reevaluated' % key, '%d points evaluated twice in history %s' % (out['dup'], hj[2:4]),
                                  dict(cfg=cfg, stops=hj[2], resume=hj[3]))
            for label, f in finals:
                bad = [k for k in ('n_like', 'log_z', 'n_eff', 'post', 'done') if str(f[k]) != str(final[k])]
                if bad:
                    rep.violation('%s:final-differs:%s' % (key, label.split('=')[0]),
                                  '%s differs from the sliced reference in %s: %s vs %s [config %s]' % (
                                      label, bad, {k: f[k] for k in bad}, {k: final[k] for k in bad}, json.dumps(cfg)),
                                  dict(cfg=cfg, runkw=runkw, label=label))
            rep.sample(dict(config=cfg, boundaries=len(recs), n_like=final['n_like'],
                            first=[dict(k=r['k'], kinds=r['kinds'], dirty=r['dirty']) for r in recs[:3]],
                            histories=[h[2:4] for h in hjobs]), cap=3)
            common.rmtree(d)
        rep.coverage['boundaries_checked'] = total_b
        # a blob dtype that cannot be checkpointed at all (numpy unicode)
        probe = dict(kind='gauss', blob='str', seed=5, mseed=seed, n_batch=4, n_live=20)
        d = os.path.join(scratch, 'probe')
        os.makedirs(d)
        try:
            ckpt.reference(probe, d, max_boundaries=3)
        except TypeError as e:
            rep.violation('blob_dtype=<U:first-write-raises-TypeError',
                          'a likelihood whose blob is a python str (numpy <U dtype) cannot be checkpointed: %s' % e,
                          dict(cfg=probe))
        rep.assumptions += ['essential state = all sampler arrays, counters, flags, generator state and every bound '
                            'attribute except Union.block (only read by split)',
                            'likelihoods and seeds sampled from the harness families']
    finally:
        common.rmtree(scratch)
    return rep.finish()


def c06_matrix(seed, tier):
    s = seed
    # the first configuration runs to completion: first batch, updates, bound insertions, end of exploration
    # and sampling-phase updates are all among its checkpoints
    m = [dict(kind='gauss', n_batch=5, n_live=10, n_points_min=3, seed=51 + s, mseed=s, n_like_max=400, resume_budget=420,
              runkw=dict(n_eff=30, discard_exploration=True, n_shell=6)),
         # second configuration: '.hdf5' suffix in a directory that does not exist when the run starts
         dict(kind='two', n_batch=5, n_live=20, n_networks=1, blob='multi', periodic=[0], seed=52 + s, mseed=s,
              n_like_max=150, resume_budget=170, n_update=20, relpath='out/run1/ck.hdf5',
              runkw=dict(n_eff=40, discard_exploration=False))]
    if tier == 'thorough':
        m += [dict(kind='plateau', n_batch=4, n_live=20, blob='float', seed=53 + s, mseed=s, n_like_max=400,
                   resume_budget=420, runkw=dict(n_eff=60, discard_exploration=True)),
              dict(kind='wrap', n_batch=6, n_live=24, blob='array', periodic=[0], n_networks=1, seed=54 + s, mseed=s,
                   n_like_max=300, resume_budget=330, runkw=dict(n_eff=50, discard_exploration=True, n_shell=12))]
    return m


def check_c06(prop, tier, seed):
    from . import kill
    rep = common.Report(prop, tier, seed, level='model_checking')
    scratch = common.scratch('c06_')
    try:
        model_check_checkpoint(rep, tier, scratch, want=('tr3', 'trreal', 'ip3'))
        rnd = random.Random(seed)
        n_kills = 0
        for ci, cfg in enumerate(c06_matrix(seed, tier)):
            d = os.path.join(scratch, 'cfg%d' % ci)
            snaps, events = kill.reference(cfg, d)
            key = _key(cfg)
            digs = [x['digest'] for x in snaps]
            kinds = [x['kind'] for x in snaps]
            fails, mainstays, res = kill.validate_io(events, d)
            rep.add_tlc(res, 'CheckpointIO.tla/trace cfg%d' % ci)
            n_sys = len(events)
            # kill points: every call in the thorough tier; strided + all protocol-relevant calls in the quick tier
            if tier == 'thorough' and ci == 0:
                ks = list(range(1, n_sys + 1))          # EVERY system call of the run that covers all phases
            else:
                stride = max(1, n_sys // (20 if tier == 'quick' else 200))
                ks = set(range(1 + rnd.randrange(stride), n_sys + 1, stride))
                proto = [e['n'] for e in events
                         if e['ev'] in ('rename', 'unlink') or (e['ev'] == 'open' and e['mode'] != 'ro')]
                for n in proto[:6] + rnd.sample(proto, min(8, len(proto))):
                    ks.update({n, n + 1})
                if ci == 0:
                    # two dense windows: EVERY system call of one incremental update in the exploration phase and of
                    # one in the sampling phase (checkpoints are delimited by the renames)
                    ren = [e['n'] for e in events if e['ev'] == 'rename']
                    for w in (3, len(ren) - 3):
                        if 1 <= w < len(ren):
                            ks.update(range(ren[w - 1] + 1, ren[w] + 2))
                ks = sorted(k for k in ks if 1 <= k <= n_sys)
            suspicious = sorted(set(n for _, _, n in fails))
            for n in suspicious[:40]:
                ks = sorted(set(ks) | {n, n + 1})
            kp = kill.kill_points(events)
            # oracle for "re-running the script continues a valid computation": the continuation from a pristine copy
            # of each completed checkpoint
            pristine = dict(common.pmap(kill.pristine_end, [(cfg, d, d, i) for i in range(1, len(snaps) + 1)]))
            outs = common.pmap(kill.kill_at, [(cfg, d, n, digs, tier == 'thorough' or i % 3 == 0) + kp[n] + (pristine,)
                                              for i, n in enumerate(ks)])
            n_kills += len([o for o in outs if o['killed']])
            bad = [o for o in outs if o['problem']]
            if bad:
                o = bad[0]
                rep.violation('%s:kill-leaves-%s' % (key, o['problem']),
                              'kill at system call %d of %d on the checkpoint paths (%s #%d): %s (%d such kill points of %d tried) [config %s]' % (
                                  o['n'], n_sys, o['sc'], o['k'], o['detail'], len(bad), len(outs), json.dumps(cfg)),
                              dict(cfg=cfg, kill_at=o['n'], all_bad=[b['n'] for b in bad][:50],
                                   event=[e for e in events if e['n'] == o['n']]))
            if fails or mainstays:
                what = 'step %s %s' % (fails[0][2], fails[0][1]) if fails else 'MainStays violated'
                if bad:
                    rep.info('strace log rejected by CheckpointIO.tla (%s) and confirmed by kills' % what)
                else:
                    rep.divergence('clause=%s config=%s: protocol differs from TmpRename but every kill tried left a '
                                   'complete snapshot' % (what, key))
            else:
                rep.coverage['traces_validated_against_impl'] += 1
            rep.coverage['transitions'] += n_sys
            rep.sample(dict(config=cfg, checkpoints=len(snaps), kinds=kinds[:12], syscalls=n_sys,
                            kill_points=ks[:20], first_events=[(e['sc'], e['file'], e['mode']) for e in events[:6]]),
                       cap=3)
            common.rmtree(d)
        rep.coverage['kills_performed'] = n_kills
        rep.coverage['exhaustive'] = tier == 'thorough'
        rep.coverage['exhaustive_over'] = ('every system call on the checkpoint paths of configuration 1 (all phases); '
                                           'strided for the other configurations') if tier == 'thorough' else 'strided'
        rep.assumptions += ['a kill is modelled as SIGKILL delivered at a system call on the checkpoint paths '
                            '(process death; no power loss, so no fsync ordering is required)',
                            'h5py is trusted as a reader of the file left behind']
    finally:
        common.rmtree(scratch)
    return rep.finish()
