"""C15 (Prior), C16 (PhaseShift), C14 (equal-weight resampling)."""
import json
import os

from . import common, tlc

PTAGS = {
    'PR_Aligned': {'C15'}, 'PR_Dim': {'C15'}, 'PR_Phys': {'C15'}, 'PR_DictKeys': {'C15'}, 'PR_Dict': {'C15'},
    'PR_Shapes': {'C15'}, 'PR_Monotone': {'C15'}, 'PR_AcceptedMalformed': {'C15'}, 'PR_AddOK': {'C15'},
    'PR_RejectLeavesUnchanged': {'C15'}, 'PR_RejectedWellFormed': {'C15'}, 'PR_ExceptionClass': {'C15'},
    'KeysUnique': {'C15'}, 'LinksResolved': {'C15'}, 'NoSuchAction': set(),
}


def check_c15(prop, tier, seed):
    from . import prior_ops as po
    rep = common.Report(prop, tier, seed)
    scratch = common.scratch('c15_')
    try:
        cfg = os.path.join(scratch, 'prior_mc.cfg')
        tlc.write_cfg(cfg, spec='Spec', constants=dict(Keys=set(po.KEYS), MaxLen=3 if tier == 'quick' else 4),
                      invariants=['KeysUnique', 'LinksResolved', 'DimIsFree', 'DictTotal'])
        res = tlc.run_tlc('Prior', cfg, workers=common.NCPU, timeout=900)
        rep.add_tlc(res, 'Prior.tla/all declaration sequences')
        if not res.ok:
            rep.violation('spec:Prior:%s' % res.violated, 'Prior.tla violates %s' % res.violated, dict(out=res.out[-2000:]))
        depth = 3 if tier == 'quick' else 4
        # root edges, then one job per accepted first declaration
        root_log, root_st = po.explore_from(([], 1))
        firsts = []
        for i in range(1, len(root_log), 2):
            e = root_log[i]['event']
            if e['outcome'] == 'ok':
                ka = dict(kk=e['kk'], ks=e['ks']) if e['kk'] == 'str' else dict(kk=e['kk'])
                da = dict(dd=e['dd'], dtag=e['dtag']) if e['dd'] in ('range', 'dist', 'number') else \
                    (dict(dd='link', dto=e['dto']) if e['dd'] == 'link' else dict(dd='bad'))
                firsts.append([(ka, da)])
        outs = common.pmap(po.explore_from, [(f, depth) for f in firsts])
        logs = [(root_log, root_st)] + outs
        total = dict(priors=0, edges=0, outcomes={})
        for lg, st in logs:
            total['priors'] += st['priors']
            total['edges'] += st['edges']
            for k, v in st['outcomes'].items():
                total['outcomes'][k] = total['outcomes'].get(k, 0) + v

        def val(item):
            i, (lg, st) = item
            return lg, po.validate(lg, scratch, tag=str(i))
        nfail = 0
        for lg, (fails, r) in common.tmap(val, list(enumerate(logs))):
            rep.coverage['transitions'] += len(lg)
            rep.coverage['states'] += r.states
            mine = [(st, ns) for st, ns in fails if any(prop in PTAGS.get(n, set()) for n in ns)]
            nfail += len(mine)
            classes = {}
            for st, ns in mine:
                classes.setdefault('+'.join(ns), (st, ns))
            for key, (st, ns) in sorted(classes.items()):
                rec = lg[st - 1]
                pre = lg[st - 2]['decl'] if st >= 2 else []
                rep.violation('Add:%s' % key,
                              'from prior %s, add_parameter(%s) -> %s leaves %s: %s fails (%d edges in this class)' % (
                                  [(d['key'], d['kind']) for d in pre],
                                  {k: v for k, v in rec['event'].items() if k not in ('name', 'outcome') and v not in ('', 0)},
                                  rec['event'].get('outcome', '(state reached)'), [(d['key'], d['kind']) for d in rec['decl']], ns,
                                  len([1 for _, n2 in mine if '+'.join(n2) == key])),
                              dict(pre=pre, event=rec['event'], post=rec['decl'], obs=rec['obs']))
            if not mine:
                rep.coverage['traces_validated_against_impl'] += 1
        rep.coverage.update(priors_explored=total['priors'], declaration_edges=total['edges'],
                            outcomes=total['outcomes'], exhaustive=True,
                            exhaustive_over='every declaration of the alphabet (6 key arguments x 8 distributions) '
                                            'from every prior with < %d accepted declarations' % depth)
        rep.sample(dict(edge=root_log[1]['event'], post=root_log[1]['decl'], obs=root_log[1]['obs']))
        if len(logs) > 3:
            k = min(len(logs[3][0]) - 1, 41)
            rep.sample(dict(pre=logs[3][0][k - 1]['decl'], edge=logs[3][0][k]['event'], post=logs[3][0][k]['decl'],
                            obs=logs[3][0][k]['obs']))
        rep.assumptions += ['free parameters are identified by distinguishable distributions (tag j <-> range (10j, 10j+1) '
                            'or normal(10j+0.5, 0.001)) and distinct unit coordinates']
    finally:
        common.rmtree(scratch)
    return rep.finish()


STAGS = {'PS_CenterOppositeLargestGap': {'C16'}, 'PS_Forward': {'C16'}, 'PS_Inverse': {'C16'}, 'PS_InRange': {'C16'},
         'PS_Untouched': {'C16'}, 'PS_FloatInRange': {'C16'}, 'PS_FloatRoundTrip': {'C16'}, 'PS_Exact': set()}


def _grid_job(args):
    from . import phase_ops
    out = []
    for P, N, n_dim, per, seed in args:
        out += phase_ops.grid_record(P, N, n_dim, per, seed)
    return out


def check_c16(prop, tier, seed):
    import itertools
    import random
    from . import phase_ops
    rep = common.Report(prop, tier, seed)
    scratch = common.scratch('c16_')
    try:
        N = 16
        # (a) the integer model: all point sets, all inputs
        for label, consts, invs, hold in (
                ('grid', dict(N=N, MaxPts=4 if tier == 'quick' else 5),
                 ['InRange', 'ShiftBijection', 'GapOnBoundary', 'CenterFirstAdmissible'], True),
                ('neg_centre_on_gap', dict(N=8, MaxPts=3), ['WrongGapOnBoundary'], False)):
            cfg = os.path.join(scratch, 'ps_%s.cfg' % label)
            tlc.write_cfg(cfg, spec='Spec', constants=consts, invariants=invs)
            res = tlc.run_tlc('PhaseShift', cfg, workers=common.NCPU, timeout=900)
            rep.add_tlc(res, 'PhaseShift.tla/' + label)
            if hold and not res.ok:
                rep.violation('spec:PhaseShift:%s' % res.violated, 'PhaseShift.tla violates %s' % res.violated,
                              dict(out=res.out[-2000:]))
            if not hold and res.ok:
                raise tlc.TLCError('negative configuration %s not rejected' % label)
        # (b) the minifloat model of the modulo at the wrap position (repaired algorithm holds, original fails)
        for label, consts, hold in (('minifloat_repaired', dict(P=4, Q=9 if tier == 'quick' else 10, Repaired=True), True),
                                    ('neg_minifloat_unrepaired', dict(P=4, Q=9, Repaired=False), False)):
            cfg = os.path.join(scratch, 'pm_%s.cfg' % label)
            tlc.write_cfg(cfg, spec='Spec', constants=consts, invariants=['InRange', 'RoundTrip'])
            res = tlc.run_tlc('PhaseMini', cfg, workers=common.NCPU, timeout=900)
            rep.add_tlc(res, 'PhaseMini.tla/' + label)
            if hold and not res.ok:
                rep.violation('spec:PhaseMini:%s' % res.violated, 'PhaseMini.tla violates %s' % res.violated,
                              dict(out=res.out[-2000:]))
            if not hold and res.ok:
                raise tlc.TLCError('negative configuration %s not rejected' % label)
        # (c) the real code on the grid (exact) ...
        rnd = random.Random(seed)
        subsets = [c for k in range(1, 6) for c in itertools.combinations(range(N), k)]
        if tier == 'quick':
            subsets = [s for s in subsets if len(s) <= 2] + rnd.sample([s for s in subsets if len(s) > 2], 500)
        jobs = []
        for i, P in enumerate(subsets):
            n_dim, per = ((2, [0]), (3, [0, 2]), (3, [1]), (4, [0, 1, 3]), (3, [2, 0]))[i % 5]
            jobs.append((P, N, n_dim, per, seed * 100003 + i))
        chunks = [jobs[i::common.NCPU] for i in range(common.NCPU)]
        grid = [r for out in common.pmap(_grid_job, chunks) for r in out]
        # ... and on float64 inputs adjacent to the wrap positions, 0 and 1
        flo = phase_ops.float_records(400 if tier == 'quick' else 6000, seed + 7)
        log = grid + flo
        parts = [log[i::4] for i in range(4)]

        def val(item):
            i, part = item
            return part, phase_ops.validate(part, scratch, N, tag=str(i))
        n_bad = 0
        for part, (fails, res) in common.tmap(val, list(enumerate(parts))):
            rep.coverage['transitions'] += len(part)
            rep.coverage['states'] += res.states
            mine = [(st, [n for n in ns if prop in STAGS.get(n, set())]) for st, ns in fails
                    if any(prop in STAGS.get(n, set()) for n in ns)]
            classes = {}
            for st, ns in mine:
                classes.setdefault('+'.join(ns), []).append(st)
            for key, sts in sorted(classes.items()):
                r = part[sts[0] - 1]
                n_bad += len(sts)
                desc = ('grid point set %s (dimension %d): centre %s/32' % (r['pts'], r['dim'], r['center'])
                        if r['kind'] == 'grid' else
                        'float64 inputs next to the wrap position, centre %s: inputs %s leave [0,1) / worst round trip error %.3g' % (
                            r['center'], r.get('bad_inputs'), r.get('worst', 0)))
                rep.violation('%s:%s' % (r['kind'], key), '%s: %s fails (%d records)' % (desc, key, len(sts)),
                              dict(record=r))
            for st, ns in fails:
                d = [n for n in ns if not STAGS.get(n, set())]
                if d:
                    rep.divergence('clause=%s record=%s' % (d, part[st - 1].get('pts')))
            if not mine:
                rep.coverage['traces_validated_against_impl'] += 1
        rep.coverage.update(grid_point_sets=len(subsets), grid_records=len(grid), float_records=len(flo),
                            exhaustive=(tier == 'thorough'))
        rep.sample(grid[5])
        rep.sample({k: v for k, v in flo[0].items()})
        rep.assumptions += ['on the dyadic grid k/32 float64 arithmetic of the code is exact (checked: PS_Exact)',
                            'float64 boundary inputs: nextafter neighbours of both wrap positions, of 0 and of 1']
    finally:
        common.rmtree(scratch)
    return rep.finish()


ETAGS = {k: {'C14'} for k in ('EW_FloorOrCeil', 'EW_Draw', 'EW_NoRepeatBoostLe1', 'EW_Order', 'EW_RowsFromInput',
                              'EW_Count', 'EW_Triples', 'EW_WeightsEqual', 'EW_WeightedUnchanged', 'EW_StoredUnchanged',
                              'EW_DictSame')}


def check_c14(prop, tier, seed):
    from . import ew_ops
    rep = common.Report(prop, tier, seed)
    scratch = common.scratch('c14_')
    try:
        for label, invs, hold in (('model', ['FloorOrCeil', 'OrderKept', 'NoRepeatSmall', 'ExpectationExact'], True),
                                  ('neg_ceil', ['CeilExpectation'], False)):
            cfg = os.path.join(scratch, 'ew_%s.cfg' % label)
            tlc.write_cfg(cfg, spec='Spec', constants=dict(G=4 if tier == 'quick' else 5, MaxFloor=2,
                                                           MaxRows=2 if tier == 'quick' else 3), invariants=invs)
            res = tlc.run_tlc('EqualWeight', cfg, workers=common.NCPU, timeout=900)
            rep.add_tlc(res, 'EqualWeight.tla/' + label)
            if hold and not res.ok:
                rep.violation('spec:EqualWeight:%s' % res.violated, 'EqualWeight.tla violates %s' % res.violated,
                              dict(out=res.out[-2000:]))
            if not hold and res.ok:
                raise tlc.TLCError('negative configuration %s not rejected' % label)
        s = seed
        cfgs = [dict(kind='gauss', seed=61 + s, mseed=s, n_batch=5, n_live=20, blob='int'),
                dict(kind='plateau', seed=62 + s, mseed=s, n_batch=4, n_live=20, blob='multi',
                     runkw=dict(n_eff=60, discard_exploration=False)),
                dict(kind='two', seed=63 + s, mseed=s, n_batch=4, n_live=20, n_networks=1,
                     runkw=dict(n_eff=80, discard_exploration=True)),
                dict(kind='wrap', seed=64 + s, mseed=s, n_batch=4, n_live=20, periodic=[0], blob='array'),
                dict(kind='gauss', seed=65 + s, mseed=s, n_batch=4, n_live=20, prior='inplace', vectorized=True, blob='struct',
                     runkw=dict(n_eff=80, discard_exploration=True)),
                dict(kind='plateau', seed=66 + s, mseed=s, n_batch=4, n_live=20, prior='PriorArr', blob='bool2',
                     runkw=dict(n_eff=60, discard_exploration=True))]
        if tier == 'thorough':
            cfgs += [dict(kind=k, seed=70 + s + i, mseed=s + i, n_batch=4, n_live=20, blob=b,
                          runkw=dict(n_eff=100, discard_exploration=bool(i % 2)))
                     for i, (k, b) in enumerate([('ring', 'none'), ('funnel', 'float'), ('gauss', 'struct'),
                                                 ('plateau', 'bytes'), ('two', 'f32'), ('gauss', 'bool2')])]
            for c in cfgs:
                if c['kind'] == 'funnel':
                    c.update(n_dim=3, n_points_min=5)
        # (tiny boosts: the resampled posterior is often EMPTY, which is a legal outcome)
        boosts = [0.002, 0.01, 0.3, 1.0, 1.5, 2.5, 10.0]
        n_states = 4 if tier == 'quick' else 25
        outs = common.pmap(ew_ops.records_for_run, [(c, boosts, n_states) for c in cfgs])
        log = [r for o in outs for r in o]
        parts = [log[i::4] for i in range(4)]

        def val(item):
            i, part = item
            return part, ew_ops.validate(part, scratch, tag=str(i))
        clone_bad = 0
        for part, (fails, res) in common.tmap(val, list(enumerate(parts))):
            rep.coverage['transitions'] += len(part)
            rep.coverage['states'] += res.states
            for st, ns in fails:
                r = part[st - 1]
                rep.violation('%s:boost=%s:%s' % (r['cfg'], r['boost'], '+'.join(ns)),
                              'posterior(equal_weight=True, equal_weight_boost=%s) on run %s with %d weighted rows '
                              '(%d of zero weight) -> %d rows: %s fails' % (r['boost'], r['cfg'], r['n'],
                                                                          r['zero_weight_rows'], r['n_out'], ns),
                              dict(record={k: v for k, v in r.items() if k not in ('order',)}))
            if not fails:
                rep.coverage['traces_validated_against_impl'] += 1
            clone_bad += len([r for r in part if not r['cloneOK']])
        if clone_bad:
            rep.notes.append('%d calls did not consume exactly one random(n): the exact-draw clause EW_Draw was not '
                             'decided for them (set-membership clauses still were)' % clone_bad)
        rep.coverage.update(calls=len(log), rows=sum(r['n'] for r in log), calls_with_exact_draw_oracle=len(log) - clone_bad)
        r0 = log[0]
        rep.sample(dict(cfg=r0['cfg'], boost=r0['boost'], n=r0['n'], fl=r0['fl'][:8], fr=r0['fr'][:8], u=r0['u'][:8],
                        mult=r0['mult'][:8], order=r0['order'][:12]))
        rep.assumptions += ['the draws are known because the generator is cloned before the call and its state afterwards '
                            'equals the clone after one random(n) (checked per call)']
    finally:
        common.rmtree(scratch)
    return rep.finish()
