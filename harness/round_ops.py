"""C08: reconstruct single iterations of the sampling loops of Union / NautilusBound on real bounds."""
import json
import os
import numpy as np
from scipy.special import gammaln, logsumexp

from . import common, tlc
from . import bounds_ops as bo
from nautilus.bounds import Union, Ellipsoid, UnitCubeEllipsoidMixture, NautilusBound  # noqa: E402

U6 = 10 ** 6


class RecRng:
    """Delegates to a real numpy Generator and records the calls Union.sample makes."""

    def __init__(self, real):
        object.__setattr__(self, '_real', real)
        object.__setattr__(self, 'log', [])

    def __getattr__(self, name):
        return getattr(self._real, name)

    def multinomial(self, n, p, *a, **k):
        r = self._real.multinomial(n, p, *a, **k)
        self.log.append(('multinomial', int(n), np.array(p, dtype=float), np.array(r)))
        return r

    def shuffle(self, x, *a, **k):
        self._real.shuffle(x, *a, **k)
        self.log.append(('shuffle', np.array(x, copy=True)))

    def random(self, *a, **k):
        r = self._real.random(*a, **k)
        self.log.append(('random', np.array(r, copy=True)))
        return r


def _rowset(a):
    return sorted(np.ascontiguousarray(x).tobytes() for x in a)


def union_round(u):
    """Force exactly one iteration of the while loop of Union.sample and describe it."""
    real = u.rng
    proxy = RecRng(real)
    member_out = []
    origs = []
    for b in u.bounds:
        orig = b.sample
        origs.append(orig)

        def wrap(n, _o=orig, _b=b):
            r = _o(n)
            member_out.append((_b, int(n), np.array(r, copy=True)))
            return r
        b.sample = wrap
    before = np.array(u.points, copy=True)
    ns0, nr0 = int(u.n_sample), int(u.n_reject)
    u.rng = proxy
    try:
        n = len(before) + 1
        got = u.sample(n)
    finally:
        u.rng = real
        for b in u.bounds:
            if 'sample' in b.__dict__:
                del b.__dict__['sample']
    full = np.vstack([got, u.points]) if len(u.points) else np.array(got)
    appended = full[len(before):]
    kinds = [x[0] for x in proxy.log]
    rec = dict(kind='union', applicable=True)
    if kinds != ['multinomial', 'shuffle', 'random'] or not np.array_equal(full[:len(before)], before):
        rec['applicable'] = False
        rec['why'] = 'call pattern %s' % kinds
        return rec
    _, nprop, p, counts = proxy.log[0]
    shuffled = proxy.log[1][1]
    uu = np.atleast_1d(proxy.log[2][1])
    lv = np.array(u.log_v_all, dtype=float)
    # member volumes taken from the members themselves, not from the union's own record of them
    lvm = np.array([float(b.log_v) for b in u.bounds])
    vrel = np.exp(lvm - logsumexp(lvm))
    member_ok = len(member_out) == len(u.bounds)
    props = []
    for (b, n_req, arr), c in zip(member_out, counts):
        if n_req != int(c) or len(arr) != int(c) or (len(arr) and not np.all(b.contains(arr))):
            member_ok = False
        props.append(arr)
    props = np.vstack(props) if props else np.zeros((0, u.n_dim))
    incube = props[u.cube.contains(props)] if u.cube is not None else props
    cube_ok = _rowset(incube) == _rowset(shuffled) and len(uu) == len(shuffled)
    mult = np.sum([np.atleast_1d(b.contains(shuffled)) for b in u.bounds], axis=0).astype(int) if len(shuffled) else np.zeros(0, int)
    app_keys = [np.ascontiguousarray(x).tobytes() for x in appended]
    app_set = set(app_keys)
    acc = [np.ascontiguousarray(x).tobytes() in app_set for x in shuffled]
    cache_ok = [k for k, a in zip([np.ascontiguousarray(x).tobytes() for x in shuffled], acc) if a] == app_keys
    with np.errstate(all='ignore'):
        resid = float(u.log_v) - (logsumexp(lv) + np.log(1.0 - u.n_reject / u.n_sample))
    rec.update(p=[int(round(x * U6)) for x in p], vrel=[int(round(x * U6)) for x in vrel],
               counts=[int(c) for c in counts], nprop=int(nprop), memberOK=bool(member_ok), cubeOK=bool(cube_ok),
               m=[int(x) for x in mult], u=[int(np.floor(x * U6)) for x in uu[:len(mult)]], acc=[bool(a) for a in acc],
               dnsamp=int(u.n_sample) - ns0, dnrej=int(u.n_reject) - nr0, dcache=int(len(appended)),
               cacheOK=bool(cache_ok), logvResid=int(max(-10 ** 9, min(10 ** 9, round(resid * 1e9)))),
               n_members=len(u.bounds), n_overlap=int(np.sum(mult > 1)))
    return rec


def alloc_record(u, rounds=8):
    """How many proposals each member is asked for in `rounds` successive refills of the same union, observed at
    the members themselves (independent of how the allocation is computed).  RoundTrace: RD_AllocationRandom."""
    reqs = []
    for b in u.bounds:
        def wrap(n, _o=b.sample):
            reqs.append(int(n))
            return _o(n)
        b.sample = wrap
    try:
        for _ in range(rounds):
            u.sample(len(u.points) + 1)
    finally:
        for b in u.bounds:
            if 'sample' in b.__dict__:
                del b.__dict__['sample']
    k = len(u.bounds)
    lvm = np.array([float(b.log_v) for b in u.bounds])
    vrel = np.exp(lvm - logsumexp(lvm))
    return dict(kind='alloc', vrelm=[int(round(x * 1000)) for x in vrel],
                counts=[reqs[i:i + k] for i in range(0, len(reqs) - len(reqs) % k, k)], n_members=k)


def nautilus_round(b):
    """One serial iteration of NautilusBound.sample."""
    outer = b.outer_bound
    got_outer = []
    orig = outer.sample

    def wrap(n, _o=orig):
        r = _o(n)
        got_outer.append(np.array(r, copy=True))
        return r
    outer.sample = wrap
    before = np.array(b.points, copy=True)
    ns0, nr0 = int(b.n_sample), int(b.n_reject)
    try:
        b.sample(len(before) + 1, return_points=False)
    finally:
        del outer.__dict__['sample']
    appended = np.array(b.points)[len(before):]
    rec = dict(kind='nautilus', applicable=True)
    if not got_outer or not np.array_equal(np.array(b.points)[:len(before)], before):
        rec['applicable'] = False
        return rec
    props = np.vstack(got_outer)
    inb = np.any([nb.contains(props) for nb in b.neural_bounds], axis=0)
    exp = props[inb]
    with np.errstate(all='ignore'):
        resid = float(b.log_v) - (float(outer.log_v) + np.log(1.0 - b.n_reject / b.n_sample))
    rec.update(nprop=int(len(props)), nacc=int(np.sum(inb)), filterOK=bool(np.array_equal(exp, appended)),
               dnsamp=int(b.n_sample) - ns0, dnrej=int(b.n_reject) - nr0, dcache=int(len(appended)),
               logvResid=int(max(-10 ** 9, min(10 ** 9, round(resid * 1e9)))), rounds=len(got_outer))
    return rec


def merge_record(b, pool):
    """Pool path of NautilusBound.sample: parent counters grow by the sum of the workers' counters."""
    captured = []
    orig = pool.map

    def wrap(func, it, _o=orig):
        r = list(_o(func, it))
        captured.extend(r)
        return r
    pool.map = wrap
    c0 = len(b.points)
    s0 = (int(b.n_sample), int(b.n_reject), int(b.outer_bound.n_sample), int(b.outer_bound.n_reject))
    try:
        b.sample(len(b.points) + 1, return_points=False, pool=pool)
    finally:
        del pool.__dict__['map']
    return dict(kind='merge', workers=len(captured),
                dnsamp=int(b.n_sample) - s0[0], dnrej=int(b.n_reject) - s0[1],
                donsamp=int(b.outer_bound.n_sample) - s0[2], donrej=int(b.outer_bound.n_reject) - s0[3],
                dcache=int(len(b.points)) - c0,
                wnsamp=int(sum(w.n_sample for w in captured)), wnrej=int(sum(w.n_reject for w in captured)),
                wonsamp=int(sum(w.outer_bound.n_sample for w in captured)),
                wonrej=int(sum(w.outer_bound.n_reject for w in captured)),
                wcache=int(sum(len(w.points) for w in captured)))


def volume_record(e):
    d = e.n_dim
    lball = d * np.log(2.) + d * gammaln(1.5) - gammaln(d / 2.0 + 1)
    v1 = -np.linalg.slogdet(e.B_inv)[1] + lball            # region accepted by contains(): |B_inv x| < 1
    v2 = -0.5 * np.linalg.slogdet(e.A)[1] + lball           # (x-c)^T A (x-c) < 1
    return dict(kind='volume', n_dim=int(d), resid=int(round((e.log_v - v1) * 1e9)),
                residA=int(round((e.log_v - v2) * 1e9)))


def job(spec):
    """Build one bound, drive it through splits and several rounds, return the records."""
    with common.cpu_limit(400):
        return _job(spec)


def _job(spec):
    recs = []
    kind, n_dim, n, seed, cls_name, unit, n_split = spec['kind'], spec['n_dim'], spec['n'], spec['seed'], \
        spec['cls'], spec.get('unit', True), spec.get('n_split', 2)
    pts = bo.pointset(kind, n_dim, n, seed)
    rng = np.random.default_rng(9000 + seed)
    if cls_name in ('Ellipsoid', 'UnitCubeEllipsoidMixture'):
        cls = Ellipsoid if cls_name == 'Ellipsoid' else UnitCubeEllipsoidMixture
        u = Union.compute(pts, n_points_min=spec.get('npm', n_dim + 2), bound_class=cls, unit=unit, rng=rng)
        for _ in range(n_split):
            u.split()
        for r in range(spec.get('rounds', 4)):
            recs.append(union_round(u))
        if spec.get('roundtrip'):
            import copy
            f = bo._h5()
            g = f.create_group('b')
            u.write(g)
            u2 = Union.read(g, rng=bo.clone_rng(u.rng))
            f.close()
            recs.append(union_round(u2))
        recs.append(alloc_record(u))
        for b in u.bounds:
            e = b if isinstance(b, Ellipsoid) else b.ellipsoid
            if e is not None:
                recs.append(volume_record(e))
    else:
        ospec = dict(cls='NautilusBound', kind=kind, n_dim=n_dim, n=n, seed=seed, n_networks=spec.get('n_networks', 1),
                     periodic=spec.get('periodic'), pool=None, npm=spec.get('npm', n_dim + 3))
        b, cpts, _ = bo.make_object(ospec)
        for r in range(spec.get('rounds', 3)):
            recs.append(nautilus_round(b))
            recs.append(union_round(b.outer_bound))
        recs.append(alloc_record(b.outer_bound))
        if spec.get('pool'):
            from nautilus.pool import NautilusPool
            pool = NautilusPool(spec['pool'])
            try:
                recs.append(merge_record(b, pool))
                recs.append(merge_record(b, pool))
            finally:
                pool.pool.terminate()
                pool.pool.join()
    for r in recs:
        r['job'] = '%s,%dD,%s,unit=%s,seed=%d' % (kind, n_dim, cls_name, unit, seed)
    return recs


def validate(log, scratch, tag='rd'):
    path = os.path.join(scratch, 'round_%s.json' % tag)
    json.dump(log, open(path, 'w'))
    cfg = path + '.cfg'
    tlc.write_cfg(cfg, spec='TSpec', constants=dict(NC=1, NE=1, MaxM=1, Rule='code'), postcondition='Done')
    res = tlc.run_tlc('RoundTrace', cfg, workers=1, timeout=1200, env=dict(TRACE_FILE=path), heap='6g')
    fails, done = [], None
    for line in res.prints:
        v = tlc.parse_tla(line)
        if v[0] == '@@F':
            fails.append((int(v[1]), sorted(v[2][1])))
        elif v[0] == '@@DONE':
            done = (int(v[1]), int(v[2]))
    if done is None or done[0] != done[1] or done[1] != len(log):
        raise tlc.TLCError('RoundTrace did not consume the log (%s)\n%s' % (done, res.out[-2500:]))
    return fails, res
