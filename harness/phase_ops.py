"""C16: replay PhaseShift on dyadic-grid point sets (exact) and on float64 boundary inputs."""
import itertools
import json
import os
import numpy as np

from . import common, tlc
from nautilus.bounds.periodic import PhaseShift  # noqa: E402


def grid_record(P, N, n_dim, per_dims, seed):
    """One point set on the grid: real compute() + full forward/inverse tables as integers."""
    g = np.random.default_rng(seed)
    M = 2 * N
    pts = g.random((len(P), n_dim))
    # every periodic dimension carries the same grid set in a different order
    for j, d in enumerate(per_dims):
        pts[:, d] = np.array(g.permutation(list(P)), dtype=float) / N
    ps = PhaseShift.compute(pts, np.array(per_dims, dtype=int))
    recs = []
    X = g.random((M, n_dim))
    for j, d in enumerate(per_dims):
        c2 = ps.centers[j] * M
        Xd = X.copy()
        Xd[:, d] = np.arange(M) / M
        Y = ps.transform(Xd)
        Z = ps.transform(Xd, inverse=True)
        f2, i2 = Y[:, d] * M, Z[:, d] * M
        exact = bool(c2 == np.round(c2) and np.all(f2 == np.round(f2)) and np.all(i2 == np.round(i2)))
        other = [k for k in range(n_dim) if k not in per_dims]
        unt = bool(np.array_equal(Y[:, other], Xd[:, other]) and np.array_equal(Z[:, other], Xd[:, other]))
        # input array must not be modified
        unt = unt and bool(np.array_equal(Xd[:, d], np.arange(M) / M))
        recs.append(dict(kind='grid', pts=sorted(int(p) for p in P), dim=int(d), center=int(round(c2)),
                         fwd=[int(round(v)) for v in f2], inv=[int(round(v)) for v in i2],
                         untouched=unt, exact=exact))
    return recs


def ulp_circ(a, b):
    d = abs(a - b) % 1.0
    return min(d, 1.0 - d)


def float_records(n, seed):
    g = np.random.default_rng(seed)
    recs = []
    for t in range(n):
        n_dim = int(g.integers(2, 5))
        per = sorted(g.choice(n_dim, size=int(g.integers(1, n_dim)), replace=False).tolist())
        pts = g.random((int(g.integers(3, 40)), n_dim))
        if t % 3 == 0:
            pts[:, per[0]] = (0.02 * g.normal(size=len(pts))) % 1.0        # a mode on the boundary
        ps = PhaseShift.compute(pts, np.array(per, dtype=int))
        for j, d in enumerate(per):
            c = float(ps.centers[j])
            wf = (c + 0.5) % 1.0
            wi = (0.5 - c) % 1.0
            cands = []
            for w in (wf, wi, (c - 0.5) % 1.0, (1.5 - c) % 1.0):
                cands += [np.nextafter(w, 0), w, np.nextafter(w, 1), np.nextafter(np.nextafter(w, 0), 0)]
            cands += [0.0, np.nextafter(0, 1), np.nextafter(1, 0), 0.5, c, np.nextafter(c, 0), np.nextafter(c, 1)]
            cands = [float(v) for v in cands if 0.0 <= v < 1.0]
            X = g.random((len(cands), n_dim))
            X[:, d] = cands
            X0 = X.copy()
            Y = ps.transform(X)
            Z = ps.transform(X, inverse=True)
            YZ = ps.transform(Y, inverse=True)
            ZY = ps.transform(Z)
            in_range = bool(np.all((Y >= 0) & (Y < 1)) and np.all((Z >= 0) & (Z < 1)))
            worst = max([ulp_circ(a, b) for a, b in zip(YZ[:, d], X0[:, d])] +
                        [ulp_circ(a, b) for a, b in zip(ZY[:, d], X0[:, d])])
            other = [k for k in range(n_dim) if k not in per]
            unt = bool(np.array_equal(Y[:, other], X0[:, other]) and np.array_equal(X, X0))
            bad = [float(x) for x, y, z in zip(X0[:, d], Y[:, d], Z[:, d]) if not (0 <= y < 1 and 0 <= z < 1)]
            recs.append(dict(kind='float', center=repr(c), dim=int(d), n_inputs=len(cands), inRange=in_range,
                             roundTrip=bool(worst <= 5e-16), untouched=unt, worst=float(worst), bad_inputs=bad[:4]))
            # the same for single-precision input arrays (neighbours taken in float32)
            c32 = []
            for w in (wf, wi):
                w32 = np.float32(w)
                c32 += [np.nextafter(w32, np.float32(0)), w32, np.nextafter(w32, np.float32(1))]
            c32 += [np.float32(0), np.nextafter(np.float32(1), np.float32(0))]
            c32 = [v for v in c32 if 0.0 <= float(v) < 1.0]
            X32 = g.random((len(c32), n_dim)).astype(np.float32)
            X32[:, d] = np.array(c32, dtype=np.float32)
            X32_0 = X32.copy()
            Y32 = ps.transform(X32)
            Z32 = ps.transform(X32, inverse=True)
            in32 = bool(np.all((Y32 >= 0) & (Y32 < 1)) and np.all((Z32 >= 0) & (Z32 < 1)))
            unt32 = bool(np.array_equal(np.asarray(Y32)[:, other], X32_0[:, other]) and np.array_equal(X32, X32_0))
            bad32 = [float(x) for x, y, z in zip(X32_0[:, d], np.asarray(Y32)[:, d], np.asarray(Z32)[:, d])
                     if not (0 <= y < 1 and 0 <= z < 1)]
            recs.append(dict(kind='float', center=repr(c), dim=int(d), n_inputs=len(c32), inRange=in32, roundTrip=True,
                             untouched=unt32, worst=0.0, bad_inputs=bad32[:4], dtype='float32'))
    return recs


def validate(log, scratch, N, tag='ps'):
    path = os.path.join(scratch, 'phase_%s.json' % tag)
    json.dump(log, open(path, 'w'))
    cfg = path + '.cfg'
    tlc.write_cfg(cfg, spec='TSpec', constants=dict(N=N, MaxPts=99), postcondition='Done')
    res = tlc.run_tlc('PhaseTrace', cfg, workers=1, timeout=1200, env=dict(TRACE_FILE=path), heap='6g')
    fails, done = [], None
    for line in res.prints:
        v = tlc.parse_tla(line)
        if v[0] == '@@F':
            fails.append((int(v[1]), sorted(v[2][1])))
        elif v[0] == '@@DONE':
            done = (int(v[1]), int(v[2]))
    if done is None or done[0] != done[1] or done[1] != len(log):
        raise tlc.TLCError('PhaseTrace did not consume the log (%s)\n%s' % (done, res.out[-2500:]))
    return fails, res
