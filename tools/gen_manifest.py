#!/usr/bin/env python3
"""Regenerates MANIFEST.json from the table below (single place to edit)."""
import json, os
HERE = os.path.dirname(os.path.dirname(os.path.abspath(__file__)))
BASE = "cd /repo && /venv/bin/python -m pytest -ra -q -p no:cacheprovider --timeout=900 --continue-on-collection-errors"
TB = ("TLC 1.8 + SANY + CommunityModules (Json, IOUtils, SequencesExt); harness projection layer "
      "(harness/traced.py, read-only); numpy generator; likelihoods/point sets/seeds are sampled from harness families")
CHECKS = {
 'C01': dict(cat='model_checking', tech='TLA+ spec (Sampler.tla) model-checked with TLC + trace validation of real runs (SamplerTrace.tla), histories from Driver.tla',
   text='TLC explores Sampler.tla exhaustively for small constants (every swallowed set, fresh signature, transfer subset, end of exploration) with ShellPartition/InCube as invariants; then every step of traced real runs (configuration matrix x histories sampled by TLC from Driver.tla x hand-written boundary scenarios x scripted non-nested geometries sampled by TLC from CellWorld.tla, incl. histories that resume after every batch) is validated clause by clause, with signatures computed by the real contains() of the bounds alive at that step. Right level: the property is a state invariant over all histories; the model decides the design, the traces bind it to the code at every step rather than at the end of a run.',
   ref='DESIGN 4.1, 5/C01'),
 'C02': dict(cat='model_checking', tech='TLA+ spec model-checked with TLC + trace validation with exact integer statistics and float residuals',
   text='Sampler.tla defines the estimators as functions of the stored rows; integer-level likelihoods make per-shell sums exact integers that TLC recomputes in every logged state (StatsFromStored), proposal counts are observed independently of the code (AS_Proposals/AS_Accounted), and log_z, n_eff, eta, shell volumes and posterior weights are compared with the formulas of the spec as residuals bounded by 1e-6.',
   ref='DESIGN 2.3, 5/C02'),
 'C03': dict(cat='model_checking', tech='TLA+ spec model-checked with TLC + trace validation; pure re-evaluation of every stored/posterior row',
   text='Sampler.tla carries (id, level, blob) as parallel sequences that every action must permute together (TriplesFaithful, NoDup, EvalImmutable); traced runs over batch size 1, vectorised, dict/array arguments, in-place prior, pools and eight blob dtypes are validated step by step, and every stored row and posterior() row is re-evaluated with the pure likelihood.',
   ref='DESIGN 5/C03'),
 'C10': dict(cat='model_checking', tech='TLA+ spec (run-call layer of Sampler.tla) model-checked with TLC + trace validation of TLC-generated run()/resume histories',
   text='RunCall/AddSamples/RunReturn clauses (AS_Budget, AS_Count, AS_BatchExact, AS_Cube, RR_Pre, RR_Value, BudgetRespected, NLikeExact) are model-checked and then checked on every step of histories of run() calls with budgets {cur, cur+1, cur+n_batch-1, cur+n_batch+1, ...}, timeout 0, n_shell targets and resumes; the recording likelihood is the ground truth for calls.',
   ref='DESIGN 5/C10'),
 'C12': dict(cat='model_checking', tech='TLA+ spec model-checked with TLC (action properties) + trace validation of TLC-generated toggle/resume histories',
   text='ExploredStable, FrozenBounds, AppendOnly, ExpSplitFrozen, NonEmptyAfterExploration and the pure-view clauses (SD_Only, EE_Freeze, PO_Rows, StatsFunctional) are action properties / invariants of Sampler.tla, checked by TLC on the model and on every logged step of histories with toggles at arbitrary boundaries.',
   ref='DESIGN 5/C12'),
 'C05': dict(cat='model_checking', tech='TLA+ spec (Checkpoint.tla) model-checked with TLC + trace validation of per-boundary resume records (ResumeTrace.tla) from the real code',
   text='Checkpoint.tla (field-group level: what each step dirties vs what each write kind writes) is model-checked for BoundaryEqual with the real step table and two broken tables that must fail; on the code, EVERY batch boundary of sliced reference runs is resumed from a copy of the checkpoint: load = memory part by part, then one and two further batches must reach the reference states (2-step bisimulation), which by induction gives equality for every sequence of stops; whole-run finals of uninterrupted and multi-stop histories are compared bit for bit.',
   ref='DESIGN 4.3, 5/C05'),
 'C06': dict(cat='model_checking', tech='TLA+ spec (Checkpoint.tla, crash at every step) model-checked with TLC + strace syscall log validated against CheckpointIO.tla + SIGKILL injection at system calls',
   text='Checkpoint.tla makes every file-system step of both protocols a separate action with Crash enabled everywhere: TLC proves Atomic/Recent/Restartable for write-to-temporary-then-rename and refutes them for the in-place protocol of the pinned commit. The syscall log of a real run (strace on the checkpoint paths) is validated against the file-level actions (no mutation of the live file except an atomic rename of a closed temporary), and child processes are killed at system calls on those paths (strided in quick, every call in thorough); the file left must be exactly checkpoint j or j+1 of the reference run, and re-running the script on it (stale temporary file present) must end in the same state as continuing from a pristine copy of that checkpoint.',
   ref='DESIGN 4.3, 5/C06'),
 'C07': dict(cat='model_checking', tech='TLA+ spec (Bounds.tla) model-checked with TLC + trace validation (BoundsTrace.tla) of exhaustively enumerated operation trees replayed on real bound objects',
   text='Bounds.tla states the life cycle of bound objects; the replayer walks all split/trim/sample sequences on unions (both member classes, unit on/off) and sample/reset sequences on every other class (cube, ellipsoid, mixture, neural, nautilus with 0-2 networks, periodic shift, pool) and logs observations made with the object\'s own contains(): Enclosed (construction points), SampleInside/SampleInCube, InsideOuter; TLC requires them after every operation.',
   ref='DESIGN 4.5, 5/C07'),
 'C09': dict(cat='model_checking', tech='TLA+ spec (Bounds.tla Write/Update/Read) + trace validation of round trips at the nodes of exhaustively enumerated operation trees',
   text='At the leaves of the operation tree of unions and after sample/reset sequences of every other class, the object is written to an HDF5 group and read back with a generator cloned from the writer: identical contains() on 3500+ probes, identical log_v, identical next 1400 samples (RT_* clauses), also for write, sample, update, read.',
   ref='DESIGN 4.5, 5/C09'),
 'C13': dict(cat='model_checking', tech='TLA+ spec (Bounds.tla) model-checked with TLC (abstract geometry) + trace validation of ALL operation sequences up to a length on real unions',
   text='Bounds.tla is model-checked exhaustively with abstract geometry (all partitions of 7-8 points, all volume splits): RecordsAligned, Partition, NonEmpty and conformance of every step to the clauses; a variant whose trim forgets the flag must fail. On the code every sequence over {split(overlap), split(no overlap), trim, sample, log_v} up to length 4 (quick) / 5 (thorough) is executed once per point set (DFS with deep copies) and every edge validated clause by clause; the unions that NautilusBound.compute builds inside real sampler runs are recorded and validated the same way.',
   ref='DESIGN 4.5, 5/C13'),
 'C14': dict(cat='model_checking', tech='TLA+ spec (EqualWeight.tla) model-checked with TLC + trace validation of real equal-weight resampling calls with cloned generator draws',
   text='EqualWeight.tla defines the resampling step; TLC checks floor-or-ceil, order, no repeats for boost<=1 and ExpectationExact (the number of draws that add a copy is exactly frac(r)*G) on all small inputs and refutes a ceil variant. On real runs (zero-weight rows included), for boosts {0.3,1,2.5,10} and several generator states, the generator is cloned before the call, so each row\'s multiplicity must equal floor(r)+[u<frac(r)] for the actual draw u; order, (likelihood, blob) of repeats, equal normalised weights, unchanged weighted posterior and stored state are clauses of the trace spec.',
   ref='DESIGN 4.7, 5/C14'),
 'C15': dict(cat='model_checking', tech='TLA+ spec (Prior.tla) model-checked with TLC + trace validation of the exhaustively explored declaration graph of the real Prior',
   text='Prior.tla (declarations, admissible exception classes, Dim/Phys/Dict) is model-checked over all declaration sequences; the replayer tries every declaration of the alphabet (6 key arguments x 8 distributions) from every prior with fewer than 3 (quick) / 4 (thorough) accepted declarations and TLC validates every edge: accepted iff well-formed, rejected with an admissible exception and unchanged state, and dimensionality / unit_to_physical / unit_to_dictionary decoded to (distribution, coordinate) tables equal the spec\'s, for 1-D and 2-D inputs.',
   ref='DESIGN 4.7, 5/C15'),
 'C16': dict(cat='model_checking', tech='TLA+ specs (PhaseShift.tla integer grid model, PhaseMini.tla minifloat model) model-checked with TLC + exact replay of the real PhaseShift on the dyadic grid and on float64 boundary inputs',
   text='PhaseShift.tla: for all point subsets of the 16-grid and all inputs TLC checks InRange, ShiftBijection, GapOnBoundary; PhaseMini.tla models round-to-nearest and numpy\'s remainder on a 4-bit mantissa: the repaired algorithm stays in [0,1) for all representable (x, centre), the original does not. The real compute()/transform() are replayed on grid point sets where float arithmetic is exact, and centres and complete forward/inverse tables must EQUAL the model; the hazard classes of the minifloat model (neighbours of both wrap positions, of 0 and of 1) are instantiated in float64.',
   ref='DESIGN 4.7, 5/C16'),
 'C08': dict(cat='model_checking', tech='TLA+ spec (UnionSampling.tla, exact rationals) model-checked with TLC + trace validation (RoundTrace.tla) of reconstructed sampling rounds of the real Union / NautilusBound',
   text='PARTIAL. Decided: (a) the sampling RULE (member proportional to volume, cube filter, accept with probability 1/multiplicity) is uniform over the region and its volume estimator calibrated -- theorems checked by TLC with exact rational arithmetic over all covers of 3 cells by 3 ellipsoids (two wrong rules are refuted); (b) every iteration of the loops of Union.sample / NautilusBound.sample on real bounds, reconstructed with a recording generator, IS that rule: multinomial probabilities, cube filter, multiplicity from the members\' contains(), acceptance u > 1-1/m for the actual draw, counters, log_v formula, network filter, pool merge of both counter levels, also after a write/read round trip, and the allocation of proposals to members observed at the members over eight refills is not a fixed function of the volumes (RD_AllocationRandom); (c) closed-form ellipsoid volume equals the volume of the matrix that defines contains(). NOT decided: uniformity inside a single ellipsoid and agreement of exp(log_v) with the true measure within its Monte-Carlo error (distributional; DESIGN 7).',
   ref='DESIGN 4.6, 5/C08, 7'),
 'C11': dict(cat='model_checking', tech='TLA+ specs (Evaluate.tla completion orders, Equiv.tla, Sampler.tla Observe) checked with TLC + paired-run digest traces and TLC-generated observer placements on the real code',
   text='Evaluate.tla: gathering by submission index is order-preserving under every completion order of the pool (TLC enumerates them; gathering by completion order is refuted); the enumerated orders script a pool for the real sampler. Reference and variant runs (same seed again, vectorised, likelihood pool 1/2/3, scripted pool, verbose, checkpointing, three accessors after every batch, unsliced) are compared by digest of the complete essential state at EVERY batch boundary (Equiv.tla); observer placements generated from Driver.tla are validated against Sampler.tla (OB_Frame, OB_Digest).',
   ref='DESIGN 4.4, 5/C11'),
}
NA = {
 'C04': 'statistical statement about the expectation over independent seeds of real-valued estimators; TLC has no probabilities or reals and trace validation judges single executions (DESIGN 7). Its deterministic premises are decided by C01, C02, C08, C12.',
}
m = dict(version=1,
  setup_cmd='cd /verif && ./check setup',
  hooks=dict(guard='NAUTILUS_VERIF', enable='no source hooks: checks observe nautilus from outside (subclass of Sampler, injected rng/likelihood, strace); NAUTILUS_VERIF is reserved and unused. NAUTILUS_VERIF_REPO selects the tree under test (default /repo).',
             baseline_off_cmd=BASE, source_commits=[], add_only=True),
  engines=[dict(name='tlc', path='/verif/harness/tlc.py', serves_properties=sorted(CHECKS), kind_free_text='TLC model checking / simulation / trace validation of spec/*.tla'),
           dict(name='traced-sampler', path='/verif/harness/traced.py', serves_properties=['C01','C02','C03','C10','C12','C11','C05'], kind_free_text='projection of real executions to the abstract state of the specification')],
  checks=[], notes='See DESIGN.md (section 13 = as built). KNOWN_FINDINGS.txt: seven repaired defects (fix: commits in /repo) and one recorded finding. mutants/ = own mutation patches, seeded/ = 45 changes written by independent sub-agents with meta.json each; ./check selftest = vacuity, binding and mutant matrix.',
  not_applicable=[])
for pid in sorted(CHECKS):
    c = CHECKS[pid]
    m['checks'].append(dict(property_id=pid, quick_cmd='./check %s' % pid, thorough_cmd='./check %s --tier thorough' % pid,
        evidence_file='/verif/evidence/%s.json' % pid, replay_cmd_template='./check %s --replay {path}' % pid,
        engine='tlc', level_claimed=dict(category=c['cat'], text=c['text'], design_ref=c['ref']),
        level_note=c.get('note', TB), technique=c['tech']))
ALL = ['C%02d' % i for i in range(1, 17)]
for pid in ALL:
    if pid not in CHECKS:
        m['not_applicable'].append(dict(property_id=pid, reason=NA.get(pid, 'check not built yet (work in progress); will be claimed once its specification and conformance harness are committed')))
json.dump(m, open(os.path.join(HERE, 'MANIFEST.json'), 'w'), indent=1)
print('checks:', sorted(CHECKS), 'n/a:', [x['property_id'] for x in m['not_applicable']])
