#!/usr/bin/env python3
"""Evaluate a seeded change delivered by a sub-agent and file it under /verif/seeded/<id>/.

usage: seeded.py <id> <property> <patch.diff> <demo.py> <note.txt> [--checks C01,C02] [--skip-tests]

Steps (all in a scratch worktree of /repo outside /repo and /verif, removed afterwards):
  1. demo passes on the unchanged tree, fails on the changed tree
  2. the repository's test suite (BASELINE command) still passes with the change
  3. the registered checks named in --checks (default: the property's own) are run against the changed tree
Writes patch.diff, demo.py, note.txt and meta.json.
"""
import json, os, subprocess, sys, shutil, tempfile, time, argparse

ap = argparse.ArgumentParser()
ap.add_argument('id'); ap.add_argument('prop'); ap.add_argument('patch'); ap.add_argument('demo'); ap.add_argument('note')
ap.add_argument('--checks', default=None); ap.add_argument('--skip-tests', action='store_true')
ap.add_argument('--tier', default='quick')
ap.add_argument('--base', default='HEAD', help='commit of /repo the patch was written against')
a = ap.parse_args()
out = '/verif/seeded/%s' % a.id
os.makedirs(out, exist_ok=True)
shutil.copy(a.patch, out + '/patch.diff'); shutil.copy(a.demo, out + '/demo.py'); shutil.copy(a.note, out + '/note.txt')
wt = tempfile.mkdtemp(prefix='nvseed_', dir='/tmp')
os.rmdir(wt)
subprocess.check_call(['git', '-C', '/repo', 'worktree', 'add', '-q', '--detach', wt, a.base])
meta = dict(id=a.id, property=a.prop, repo_head=subprocess.check_output(['git', '-C', '/repo', 'rev-parse', '--short', a.base], text=True).strip())
try:
    def demo(tree):
        p = subprocess.run(['/venv/bin/python', out + '/demo.py'], env=dict(os.environ, PYTHONPATH=tree), cwd=tree,
                           stdout=subprocess.PIPE, stderr=subprocess.STDOUT, text=True, timeout=1200)
        return p.returncode, p.stdout[-600:]
    rc0, o0 = demo(wt)
    subprocess.check_call(['git', '-C', wt, 'apply', out + '/patch.diff'])
    rc1, o1 = demo(wt)
    meta['demo_unchanged'] = dict(rc=rc0, tail=o0[-300:])
    meta['demo_changed'] = dict(rc=rc1, tail=o1[-300:])
    meta['demo_ok'] = (rc0 == 0 and rc1 != 0)
    print('demo: unchanged rc=%d, changed rc=%d -> %s' % (rc0, rc1, 'OK' if meta['demo_ok'] else 'NOT CONFIRMED'))
    checks = (a.checks or a.prop).split(',')
    meta['checks'] = {}
    for c in checks:
        t = time.time()
        p = subprocess.run(['/verif/check', c, '--tier', a.tier], env=dict(os.environ, NAUTILUS_VERIF_REPO=wt), cwd='/verif',
                           stdout=subprocess.PIPE, stderr=subprocess.STDOUT, text=True, timeout=7200)
        viol = [l for l in p.stdout.splitlines() if l.startswith('VIOLATION') or l.startswith('  what:')]
        meta['checks'][c] = dict(rc=p.returncode, tier=a.tier, wall_s=round(time.time() - t, 1), detected=p.returncode == 1,
                                 first=[v[:400] for v in viol[:4]])
        print('check %s: rc=%d %s' % (c, p.returncode, 'DETECTED' if p.returncode == 1 else ('MISSED' if p.returncode == 0 else 'MACHINERY')))
        for v in viol[:2]:
            print('   ', v[:300])
    if not a.skip_tests:
        t = time.time()
        p = subprocess.run('/venv/bin/python -m pytest -q -p no:cacheprovider --timeout=900 -x tests 2>&1 | tail -3', shell=True, cwd=wt,
                           stdout=subprocess.PIPE, text=True, timeout=3600)
        meta['tests'] = dict(tail=p.stdout[-300:], wall_s=round(time.time() - t, 1), passed=(' passed' in p.stdout and 'failed' not in p.stdout and 'error' not in p.stdout.lower()))
        print('tests:', p.stdout.strip().splitlines()[-1] if p.stdout.strip() else '?')
finally:
    subprocess.call(['git', '-C', '/repo', 'worktree', 'remove', '--force', wt])
    shutil.rmtree(wt, ignore_errors=True)
old = {}
if os.path.exists(out + '/meta.json'):
    old = json.load(open(out + '/meta.json'))
old.update(meta)
json.dump(old, open(out + '/meta.json', 'w'), indent=1)
