#!/bin/sh
# usage: seed_sweep.sh <first> <last> [ids...]   -- runs the quick tier of every check under several seeds;
# prints one line per (seed, check); any VIOLATION / exit status != 0 on the unchanged tree is a false alarm to fix.
F=$1; L=$2; shift 2
IDS=${*:-C01 C02 C03 C05 C06 C07 C08 C09 C10 C11 C12 C13 C14 C15 C16}
for s in $(seq $F $L); do
  for id in $IDS; do
    out=$(VERIF_SEED=$s ./check $id 2>&1); rc=$?
    echo "seed=$s $id rc=$rc $(echo "$out" | grep -c '^VIOLATION') violations; $(echo "$out" | grep '^RESULT' | cut -c1-120)"
    if [ $rc -ne 0 ]; then echo "$out" | grep -A2 "VIOLATION\|MACHINERY\|Error\|Traceback" | head -30 | cut -c1-600; fi
  done
done
