#!/bin/sh
# usage: with_patch.sh <patch.diff> <command...>
# (PATCH_BASE=<commit> selects the commit the patch was written against; default HEAD)
# Applies the patch to a scratch worktree of /repo (outside /repo and /verif), runs the command with
# NAUTILUS_VERIF_REPO pointing at it, removes the worktree.  /repo itself is never touched.
set -u
PATCH=$(readlink -f "$1"); shift
WT=$(mktemp -d /tmp/nvwt_XXXXXX)
git -C /repo worktree add -q --detach "$WT" "${PATCH_BASE:-HEAD}" || exit 2
if ! git -C "$WT" apply "$PATCH"; then echo "patch does not apply"; git -C /repo worktree remove --force "$WT"; exit 2; fi
NAUTILUS_VERIF_REPO="$WT" "$@"
RC=$?
git -C /repo worktree remove --force "$WT"
rm -rf "$WT"
exit $RC
