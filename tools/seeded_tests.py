#!/usr/bin/env python3
"""Run the repository's full test suite against every seeded change that has no 'tests' entry yet.
usage: seeded_tests.py [workers] [id-prefix ...]"""
import json, os, subprocess, sys, shutil, tempfile, time, glob
from concurrent.futures import ThreadPoolExecutor

def one(d):
    mp = d + '/meta.json'
    meta = json.load(open(mp))
    if 'tests' in meta:
        return d, 'already'
    wt = tempfile.mkdtemp(prefix='nvst_', dir='/tmp'); os.rmdir(wt)
    # the tree the change was written against (earlier rounds predate the last fix: commits)
    subprocess.check_call(['git', '-C', '/repo', 'worktree', 'add', '-q', '--detach', wt, meta.get('repo_head', 'HEAD')])
    try:
        if subprocess.call(['git', '-C', wt, 'apply', d + '/patch.diff']) != 0:
            return d, 'patch does not apply to %s' % meta.get('repo_head', 'HEAD')
        t = time.time()
        p = subprocess.run('/venv/bin/python -m pytest -q -p no:cacheprovider --timeout=900 tests 2>&1 | tail -3', shell=True, cwd=wt,
                           stdout=subprocess.PIPE, text=True, timeout=5400)
        tail = p.stdout.strip().splitlines()[-1] if p.stdout.strip() else ''
        meta = json.load(open(mp))
        meta['tests'] = dict(cmd='pytest -q tests (full suite, 144 tests)', tail=tail, wall_s=round(time.time() - t, 1),
                             passed=(' passed' in tail and 'failed' not in tail and 'error' not in tail))
        json.dump(meta, open(mp, 'w'), indent=1)
        return d, tail
    finally:
        subprocess.call(['git', '-C', '/repo', 'worktree', 'remove', '--force', wt]); shutil.rmtree(wt, ignore_errors=True)

dirs = sorted(glob.glob('/verif/seeded/*/'))
dirs = [d.rstrip('/') for d in dirs if os.path.exists(d + 'meta.json')]
if len(sys.argv) > 2:
    dirs = [d for d in dirs if any(os.path.basename(d).startswith(x) for x in sys.argv[2:])]
with ThreadPoolExecutor(max_workers=int(sys.argv[1]) if len(sys.argv) > 1 else 2) as ex:
    for d, r in ex.map(one, dirs):
        print(os.path.basename(d), r, flush=True)
