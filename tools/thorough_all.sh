#!/bin/sh
# runs the thorough tier of every check once (sequentially), one summary line each
for id in ${*:-C14 C16 C08 C15 C11 C09 C07 C05 C06 C13 C01 C02 C03 C10 C12}; do
  start=$(date +%s)
  out=$(./check $id --tier thorough 2>&1); rc=$?
  echo "$id thorough rc=$rc wall=$(( $(date +%s) - start ))s $(echo "$out" | grep '^RESULT' | cut -c1-140)"
  if [ $rc -ne 0 ]; then echo "$out" | grep -A2 "VIOLATION\|MACHINERY\|Error\|Traceback" | head -40 | cut -c1-600; fi
done
