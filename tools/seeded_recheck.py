#!/usr/bin/env python3
"""Re-run the owning check against every seeded change (and own mutants) with the CURRENT machinery; update meta.json.
usage: seeded_recheck.py [ids...]"""
import json, os, subprocess, sys, time, glob
ids = sys.argv[1:] or sorted(os.path.basename(d.rstrip('/')) for d in glob.glob('/verif/seeded/*/'))
for i in ids:
    d = '/verif/seeded/%s' % i
    m = json.load(open(d + '/meta.json'))
    for chk in list(m.get('checks', {m['property']: 0})):
        t = time.time()
        base = 'HEAD'
        p = subprocess.run(['/verif/tools/with_patch.sh', d + '/patch.diff', '/verif/check', chk], cwd='/verif',
                           stdout=subprocess.PIPE, stderr=subprocess.STDOUT, text=True)
        if p.returncode == 2 and 'patch does not apply' in p.stdout:
            base = m.get('repo_head', 'HEAD')       # written against an older commit of /repo
            p = subprocess.run(['/verif/tools/with_patch.sh', d + '/patch.diff', '/verif/check', chk], cwd='/verif',
                               env=dict(os.environ, PATCH_BASE=base), stdout=subprocess.PIPE, stderr=subprocess.STDOUT, text=True)
        viol = [l for l in p.stdout.splitlines() if l.startswith('VIOLATION') or l.startswith('  what:')]
        m.setdefault('recheck', {})[chk] = dict(rc=p.returncode, detected=p.returncode == 1, wall_s=round(time.time() - t, 1),
                                               first=[v[:300] for v in viol[:2]], at=time.strftime('%H:%M'), base=base)
        print(i, chk, 'DETECTED' if p.returncode == 1 else 'rc=%d' % p.returncode, flush=True)
    json.dump(m, open(d + '/meta.json', 'w'), indent=1)
