#!/bin/sh
# Final clean pass: every quick check once on the unchanged /repo (rewrites evidence/<id>.json, clears stale replays),
# then schema validation of MANIFEST and evidence.
cd /verif || exit 2
git -C /repo status --short | grep -q . && { echo "/repo has uncommitted changes"; exit 2; }
fail=0
for id in C01 C02 C03 C05 C06 C07 C08 C09 C10 C11 C12 C13 C14 C15 C16; do
  rm -rf evidence/replay/$id
  out=$(./check $id 2>&1); rc=$?
  echo "$id rc=$rc $(echo "$out" | grep '^RESULT' | cut -c1-140)"
  [ $rc -ne 0 ] && { fail=1; echo "$out" | grep -A2 "VIOLATION\|MACHINERY" | head -20; }
done
python3-vt - <<'PY'
import json, jsonschema, glob
jsonschema.validate(json.load(open('/verif/MANIFEST.json')), json.load(open('/root/.vp/MANIFEST.schema.json')))
s = json.load(open('/root/.vp/EVIDENCE.schema.json'))
for f in sorted(glob.glob('/verif/evidence/*.json')):
    jsonschema.validate(json.load(open(f)), s)
print('MANIFEST and %d evidence files validate' % len(glob.glob('/verif/evidence/*.json')))
PY
exit $fail
